#!/usr/bin/env python3
"""tools/seeded_eval.py <dir-with-patch.diff+demo.py> [CHECK ...]

Apply a seeded change to a scratch copy of /repo (never to /repo itself),
confirm its demo in both directions, and run the given quick checks (default:
the property named in meta.json) against the copy. Prints a JSON summary.
"""
import json, os, shutil, subprocess, sys, tempfile, time

VERIF = os.path.dirname(os.path.dirname(os.path.abspath(__file__)))
PY = "/venv/bin/python"


def sh(cmd, **kw):
    return subprocess.run(cmd, shell=True, capture_output=True, text=True, **kw)


def main():
    d = os.path.abspath(sys.argv[1])
    checks = [c.upper() for c in sys.argv[2:]]
    patch = os.path.join(d, "patch.diff")
    demo = os.path.join(d, "demo.py")
    meta = {}
    if os.path.exists(os.path.join(d, "meta.json")):
        meta = json.load(open(os.path.join(d, "meta.json")))
    if not checks:
        checks = [meta.get("property", "")]
    scratch = tempfile.mkdtemp(prefix="seval-")
    out = tempfile.mkdtemp(prefix="seval-out-")
    res = {"dir": d, "checks": {}}
    try:
        r = sh(f"git -C /repo archive HEAD | tar -x -C {scratch}")
        assert r.returncode == 0, r.stderr
        r = sh(f"cd {scratch} && patch -p1 --no-backup-if-mismatch < {patch}")
        res["patch_applies"] = r.returncode == 0
        if r.returncode != 0:
            res["patch_error"] = (r.stdout + r.stderr)[-500:]
            print(json.dumps(res, indent=1))
            return 1
        r = sh(f"cd /tmp && PYTHONPATH={scratch} timeout 300 {PY} {demo}")
        res["demo_fails_with_patch"] = r.returncode != 0
        r2 = sh(f"cd /tmp && PYTHONPATH=/repo timeout 300 {PY} {demo}")
        res["demo_passes_without"] = r2.returncode == 0
        for c in checks:
            t0 = time.time()
            # (the saved inputs are switched off: the question here is whether the
            # generated search finds the change on its own)
            env = dict(os.environ, VERIF_REPO=scratch, VERIF_OUT=out, VERIF_NO_REGRESS="1")
            r = subprocess.run([os.path.join(VERIF, "check"), c, "--tier", "quick"], capture_output=True, text=True, env=env, cwd=VERIF)
            lines = [l for l in r.stdout.splitlines() if not l.startswith("KNOWN-FINDING")]
            # keep the shrunk failing input next to the change (tools/build_regress.py
            # turns those that pass on /repo into the regression corpus)
            for l in lines:
                if l.startswith("VIOLATION property=") and "replay=" in l:
                    src = os.path.join(out, l.split("replay=", 1)[1].strip())
                    if os.path.exists(src):
                        seed_ = os.environ.get("VERIF_SEED", "1")
                        shutil.copy(src, os.path.join(d, f"replay.{c}.s{seed_}.json"))
            res["checks"][c] = {
                "exit": r.returncode,
                "detected": r.returncode == 1,
                "seconds": round(time.time() - t0, 1),
                "message": next((l.strip() for l in lines if l.startswith("   ")), "")[:300],
                "stderr": r.stderr[-300:] if r.returncode == 2 else "",
            }
    finally:
        shutil.rmtree(scratch, ignore_errors=True)
        shutil.rmtree(out, ignore_errors=True)
    print(json.dumps(res, indent=1))
    return 0


if __name__ == "__main__":
    sys.exit(main())
