#!/usr/bin/env python3
import glob, json, sys, os
import jsonschema
HERE = os.path.dirname(os.path.dirname(os.path.abspath(__file__)))
schema = json.load(open("/root/.vp/EVIDENCE.schema.json"))
bad = 0
for p in sorted(glob.glob(os.path.join(HERE, "evidence", "C*.json"))):
    try:
        e = json.load(open(p))
        jsonschema.validate(e, schema)
        c = e["coverage"]
        print(os.path.basename(p), "ok", e["tier"], c.get("evaluations"), c.get("distinct_nontrivial"), f"{e['wall_s']}s", "viol", e.get("violations"))
    except Exception as ex:
        bad += 1
        print(os.path.basename(p), "INVALID", str(ex)[:300])
sys.exit(1 if bad else 0)
