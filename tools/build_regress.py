#!/usr/bin/env python3
"""tools/build_regress.py [--fixes] [--seeded] [--only=<commit-or-name>,...]

Build the regression corpus regress/<ID>/*.json (replayed first by every check):

* --seeded: every seeded/<name>/replay.<CHECK>.s<seed>.json (saved by
  tools/seeded_eval.py when the check caught the change) that PASSES on /repo;
* --fixes: for every `fixed: property=<ID> <commit>` line of KNOWN_FINDINGS.txt,
  a scratch copy of /repo HEAD with that one commit reverted (falling back to
  the commit's parent tree when the reverse patch does not apply), the quick
  check of <ID> run against it, and the shrunk failing input kept if it passes
  on /repo.

A file is only ever added after both directions were confirmed: fails on the
tree with the defect, passes on /repo.
"""
import glob, json, os, re, shutil, subprocess, sys, tempfile

VERIF = os.path.dirname(os.path.dirname(os.path.abspath(__file__)))


def sh(cmd, **kw):
    return subprocess.run(cmd, shell=True, capture_output=True, text=True, **kw)


def passes_on_repo(check, path):
    env = dict(os.environ)
    env.pop("VERIF_REPO", None)
    r = subprocess.run([os.path.join(VERIF, "check"), check, "--replay", path], capture_output=True, text=True, cwd=VERIF, env=env)
    return r.returncode == 0, (r.stdout + r.stderr)[-400:]


def add(check, src, name, origin):
    ok, msg = passes_on_repo(check, src)
    if not ok:
        print(f"  NOT added {name}: does not pass on /repo: {msg.strip()[-200:]}")
        return False
    data = json.load(open(src))
    data["origin"] = origin
    d = os.path.join(VERIF, "regress", check)
    os.makedirs(d, exist_ok=True)
    with open(os.path.join(d, name + ".json"), "w") as f:
        json.dump(data, f, indent=1, sort_keys=True, default=str)
    print(f"  added regress/{check}/{name}.json")
    return True


def main():
    only = None
    as_check = None  # --as=C13: run another property's check than the one the fixed: line names
    for a in sys.argv[1:]:
        if a.startswith("--only="):
            only = set(a.split("=", 1)[1].split(","))
        if a.startswith("--as="):
            as_check = a.split("=", 1)[1]
    if "--seeded" in sys.argv:
        for src in sorted(glob.glob(os.path.join(VERIF, "seeded", "C*-*", "replay.*.json"))):
            name = os.path.basename(os.path.dirname(src))
            if only and name not in only:
                continue
            _, check, sd, _ = os.path.basename(src).split(".")
            add(check, src, f"seeded-{name}-{sd}", f"seeded change {name} (VERIF_SEED={sd[1:]})")
    if "--fixes" in sys.argv:
        fixed = []
        for l in open(os.path.join(VERIF, "KNOWN_FINDINGS.txt")):
            m = re.match(r"fixed: property=(C\d+) ([0-9a-f]{7,}) (.*)", l)
            if m:
                fixed.append(m.groups())
        for check, commit, what in fixed:
            if only and commit not in only:
                continue
            if as_check:
                check = as_check
            dest = os.path.join(VERIF, "regress", check, f"fix-{commit}.json")
            if os.path.exists(dest) and "--force" not in sys.argv:
                continue
            print(f"{check} {commit}: {what[:90]}", flush=True)
            scratch = tempfile.mkdtemp(prefix="breg-")
            out = tempfile.mkdtemp(prefix="breg-out-")
            try:
                assert sh(f"git -C /repo archive HEAD | tar -x -C {scratch}").returncode == 0
                r = sh(f"git -C /repo diff {commit}^ {commit} -- cotengra | (cd {scratch} && patch -R -p1 -s --no-backup-if-mismatch)")
                how = "HEAD with this commit reverted"
                if r.returncode != 0:
                    shutil.rmtree(scratch)
                    os.makedirs(scratch)
                    assert sh(f"git -C /repo archive {commit}^ | tar -x -C {scratch}").returncode == 0
                    how = "the commit's parent tree"
                env = dict(os.environ, VERIF_REPO=scratch, VERIF_OUT=out, VERIF_NO_REGRESS="1")
                r = subprocess.run([os.path.join(VERIF, "check"), check, "--tier", "quick"], capture_output=True, text=True, env=env, cwd=VERIF)
                line = next((l for l in r.stdout.splitlines() if l.startswith("VIOLATION")), None)
                if r.returncode != 1 or not line:
                    print(f"  not detected on {how} (exit {r.returncode}) {r.stderr[-200:]}")
                    continue
                src = os.path.join(out, line.split("replay=", 1)[1].strip())
                add(check, src, f"fix-{commit}", f"/repo {commit} ({how}): {what[:160]}")
            finally:
                shutil.rmtree(scratch, ignore_errors=True)
                shutil.rmtree(out, ignore_errors=True)


if __name__ == "__main__":
    main()
