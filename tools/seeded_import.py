#!/usr/bin/env python3
"""tools/seeded_import.py <agent-outdir> <ID> [--suite] [--checks C01,C02]

Take the (up to two) changes an agent left in <agent-outdir> (patchK.diff,
demoK.py, meta.json), re-confirm each on a scratch copy of /repo HEAD (patch
applies; demo fails with it and passes without; optionally the existing suite
still passes), run the quick check(s) against the copy and, if confirmed, store
it as /verif/seeded/<ID>-K/{patch.diff, demo.py, meta.json}.
"""
import json, os, shutil, subprocess, sys, tempfile, time

VERIF = os.path.dirname(os.path.dirname(os.path.abspath(__file__)))
PY = "/venv/bin/python"


def sh(cmd, **kw):
    return subprocess.run(cmd, shell=True, capture_output=True, text=True, **kw)


def main():
    outdir, pid = sys.argv[1], sys.argv[2].upper()
    suite = "--suite" in sys.argv
    checks = [pid]
    offset = 0
    for a in sys.argv[3:]:
        if a.startswith("--checks"):
            checks = a.split("=", 1)[1].split(",")
        if a.startswith("--offset"):
            offset = int(a.split("=", 1)[1])
    agent_meta = []
    mp = os.path.join(outdir, "meta.json")
    if os.path.exists(mp):
        try:
            agent_meta = json.load(open(mp))
        except Exception:
            agent_meta = []
    for K in (1, 2):
        patch = os.path.join(outdir, f"patch{K}.diff")
        demo = os.path.join(outdir, f"demo{K}.py")
        if not (os.path.exists(patch) and os.path.exists(demo)):
            print(f"{pid}-{K}: missing patch or demo")
            continue
        am = next((m for m in agent_meta if isinstance(m, dict) and m.get("patch") == f"patch{K}.diff"), {})
        scratch = tempfile.mkdtemp(prefix="simp-")
        out = tempfile.mkdtemp(prefix="simp-out-")
        rec = {"property": pid, "summary": am.get("summary", ""), "needs": am.get("needs", ""), "author": "independent sub-agent given only the property text and a private worktree"}
        try:
            assert sh(f"git -C /repo archive HEAD | tar -x -C {scratch}").returncode == 0
            r = sh(f"cd {scratch} && patch -p1 --no-backup-if-mismatch < {patch}")
            rec["patch_applies"] = r.returncode == 0
            if r.returncode != 0:
                print(f"{pid}-{K}: patch does not apply: {(r.stdout + r.stderr)[-300:]}")
                continue
            env1 = "OMP_NUM_THREADS=1 OPENBLAS_NUM_THREADS=1"
            r1 = sh(f"cd /tmp && {env1} PYTHONPATH={scratch} timeout 600 {PY} {demo}")
            r0 = sh(f"cd /tmp && {env1} PYTHONPATH=/repo timeout 600 {PY} {demo}")
            rec["demo_fails_with_patch"] = r1.returncode != 0
            rec["demo_passes_without"] = r0.returncode == 0
            rec["demo_output_with_patch"] = (r1.stdout + r1.stderr)[-400:]
            if suite:
                t0 = time.time()
                # (a few tests of the suite contract networks along unseeded random
                # paths and now and then take tens of minutes inside BLAS, with or
                # without a patch: a run that exceeds 15 min is repeated)
                for attempt in range(3):
                    r = sh(
                        f"cd {scratch} && {env1} timeout -k 5 900 {PY} -m pytest -q -p no:cacheprovider -n 8 --timeout=600 "
                        "--deselect 'tests/test_optimizers.py::test_hyper[False-chocolate-chocolate]' "
                        "--deselect 'tests/test_optimizers.py::test_hyper[True-chocolate-chocolate]' 2>&1 | tail -3"
                    )
                    last = r.stdout.strip().splitlines()[-1] if r.stdout.strip() else "?"
                    if "passed" in last and "failed" not in last and "error" not in last:
                        break
                rec["suite"] = last
                rec["suite_seconds"] = round(time.time() - t0)
            rec["ran"] = [f"patch -p1 on a scratch copy of /repo HEAD", f"PYTHONPATH=<copy> python demo.py (exit {r1.returncode})", f"PYTHONPATH=/repo python demo.py (exit {r0.returncode})"]
            rec["detected_by"] = {}
            for c in checks:
                env = dict(os.environ, VERIF_REPO=scratch, VERIF_OUT=out, VERIF_NO_REGRESS="1")
                t0 = time.time()
                r = subprocess.run([os.path.join(VERIF, "check"), c, "--tier", "quick"], capture_output=True, text=True, env=env, cwd=VERIF)
                lines = [l for l in r.stdout.splitlines() if not l.startswith("KNOWN-FINDING")]
                rec["detected_by"][c] = {
                    "exit": r.returncode,
                    "detected": r.returncode == 1,
                    "seconds": round(time.time() - t0, 1),
                    "message": next((l.strip() for l in lines if l.startswith("   ")), "")[:300],
                }
                if r.returncode == 2:
                    rec["detected_by"][c]["stderr"] = r.stderr[-400:]
        finally:
            shutil.rmtree(scratch, ignore_errors=True)
            shutil.rmtree(out, ignore_errors=True)
        confirmed = rec.get("demo_fails_with_patch") and rec.get("demo_passes_without")
        rec["confirmed"] = bool(confirmed)
        print(json.dumps({k: v for k, v in rec.items() if k not in ("demo_output_with_patch",)}, indent=1))
        if confirmed:
            dst = os.path.join(VERIF, "seeded", f"{pid}-{K + offset}")
            os.makedirs(dst, exist_ok=True)
            shutil.copy(patch, os.path.join(dst, "patch.diff"))
            shutil.copy(demo, os.path.join(dst, "demo.py"))
            json.dump(rec, open(os.path.join(dst, "meta.json"), "w"), indent=1)


if __name__ == "__main__":
    main()
