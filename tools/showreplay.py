#!/usr/bin/env python3
import json, sys, glob
for f in sys.argv[1:]:
    d = json.load(open(f))
    s = d["spec"]
    print(f)
    if "net" in s:
        print(" net", s["net"]["inputs"], "->", s["net"]["output"], s["net"]["sizes"])
    for k, v in s.items():
        if k in ("net",):
            continue
        if k == "ops":
            for o in v:
                print("    ", o)
        else:
            print(" ", k, v)
    print(" V:", d["violations"])
