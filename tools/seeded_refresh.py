#!/usr/bin/env python3
"""tools/seeded_refresh.py: make every seeded/<name>/patch.diff apply to /repo HEAD
with plain `git apply` again. A patch that only applies with patch(1)'s fuzz (context
moved by a later fix: commit) is regenerated from the patched scratch copy; one that
does not apply at all is reported for rebasing by hand."""
import glob, os, shutil, subprocess, tempfile

VERIF = os.path.dirname(os.path.dirname(os.path.abspath(__file__)))
for d in sorted(glob.glob(os.path.join(VERIF, "seeded", "C*-*"))):
    p = os.path.join(d, "patch.diff")
    if subprocess.run(["git", "-C", "/repo", "apply", "--check", p], capture_output=True).returncode == 0:
        continue
    scratch = tempfile.mkdtemp(prefix="sref-")
    try:
        subprocess.run(f"git -C /repo archive HEAD | tar -x -C {scratch}", shell=True, check=True)
        subprocess.run("git init -q && git add -A && git -c user.email=a@b -c user.name=x commit -qm base", shell=True, cwd=scratch, check=True)
        r = subprocess.run(f"patch -p1 -s --no-backup-if-mismatch < {p}", shell=True, cwd=scratch, capture_output=True, text=True)
        if r.returncode != 0:
            print(os.path.basename(d), "does NOT apply, rebase by hand:", (r.stdout + r.stderr).strip()[:200])
            continue
        diff = subprocess.run("git diff", shell=True, cwd=scratch, capture_output=True, text=True).stdout
        open(p, "w").write(diff)
        ok = subprocess.run(["git", "-C", "/repo", "apply", "--check", p], capture_output=True).returncode == 0
        print(os.path.basename(d), "refreshed" if ok else "refreshed but still fails?!")
    finally:
        shutil.rmtree(scratch, ignore_errors=True)
