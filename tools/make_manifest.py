#!/usr/bin/env python3
"""Regenerate /verif/MANIFEST.json from the table below and validate it."""

import json
import os
import sys

HERE = os.path.dirname(os.path.dirname(os.path.abspath(__file__)))

# id -> (category, technique, level text, level note, design ref)
CHECKS = {}


def add(pid, category, technique, text, note, ref):
    CHECKS[pid] = (category, technique, text, note, ref)


# filled in by tools/manifest_table.py so the table can grow as checks land
sys.path.insert(0, os.path.join(HERE, "tools"))
import manifest_table  # noqa

manifest_table.fill(add)

ALL = [f"C{i:02d}" for i in range(1, 21)]

checks = []
for pid in ALL:
    if pid not in CHECKS:
        continue
    category, technique, text, note, ref = CHECKS[pid]
    checks.append(
        {
            "property_id": pid,
            "quick_cmd": f"./check {pid} --tier quick",
            "thorough_cmd": f"./check {pid} --tier thorough",
            "evidence_file": f"evidence/{pid}.json",
            "replay_cmd_template": f"./check {pid} --replay {{path}}",
            "engine": "vlib",
            "level_claimed": {
                "category": category,
                "text": text,
                "design_ref": ref,
            },
            "level_note": note,
            "technique": technique,
        }
    )

not_applicable = [
    {"property_id": pid, "reason": manifest_table.NOT_YET.get(pid, "check not built yet; see DESIGN.md")}
    for pid in ALL
    if pid not in CHECKS
]

manifest = {
    "version": 1,
    "setup_cmd": "sh ./setup.sh",
    "hooks": {
        "guard": "COTENGRA_VERIF",
        "enable": "no source hooks are needed: cotengra is pure Python and imported from /repo's working tree (PYTHONPATH=/repo); schedules, crashes and trial counting are injected from the harness through public extension points",
        "baseline_off_cmd": "cd /repo && /venv/bin/python -m pytest -ra -q -p no:cacheprovider --timeout=900 --continue-on-collection-errors",
        "source_commits": [],
        "add_only": True,
    },
    "engines": [
        {
            "name": "vlib",
            "path": "vlib/",
            "serves_properties": [c["property_id"] for c in checks],
            "kind_free_text": "Hypothesis-driven generated checks (plain-data case specs, sharded over 16 processes) against independent reference evaluators; op-list state machines for histories; harness-owned schedulers and crash injection",
        }
    ],
    "checks": checks,
    "not_applicable": not_applicable,
    "notes": "Run ./check <ID> --tier quick|thorough from /verif. VERIF_SEED selects the Hypothesis seed; VERIF_REPO (default /repo) the tree under test. Exit 2 = harness trouble / inconclusive, never a violation. Every check first replays its saved failing inputs (regress/<ID>/*.json: shrunk inputs that failed on a tree with a since-repaired defect or with a seeded change, and pass on /repo), then runs the generated search; KNOWN_FINDINGS.txt lists repaired (fixed:) and open (open:) findings.",
}

path = os.path.join(HERE, "MANIFEST.json")
with open(path, "w") as f:
    json.dump(manifest, f, indent=1)
    f.write("\n")

try:
    import jsonschema

    schema = json.load(open("/root/.vp/MANIFEST.schema.json"))
    jsonschema.validate(manifest, schema)
    print("MANIFEST.json valid;", len(checks), "checks,", len(not_applicable), "not_applicable")
except ImportError:
    print("jsonschema not available; wrote MANIFEST.json unvalidated")
