#!/usr/bin/env python3
"""tools/seeded_all.py [--only C01-1,...]: re-evaluate every seeded change with the
current checks (own property's quick check, plus EXTRA ones), update each
meta.json and print a markdown table for DESIGN.md section 5."""
import json, os, subprocess, sys, glob

VERIF = os.path.dirname(os.path.dirname(os.path.abspath(__file__)))
EXTRA = {"C12-7": ["C01"], "C14-7": ["C16"], "C13-5": ["C14"], "C03-1": ["C04"], "C05-2": ["C13"], "C02-1": ["C04"], "C04-1": ["C02", "C18"], "C18-2": ["C04"]}

only = None
seed = None  # --seed=N: robustness sweep at another VERIF_SEED, recorded under "detected_by_seed"
for a in sys.argv[1:]:
    if a.startswith("--only"):
        only = set(a.split("=", 1)[1].split(","))
    if a.startswith("--seed"):
        seed = a.split("=", 1)[1]

rows = []
for d in sorted(glob.glob(os.path.join(VERIF, "seeded", "C*-*"))):
    name = os.path.basename(d)
    meta = json.load(open(os.path.join(d, "meta.json")))
    if only is None or name in only:
        checks = [meta["property"]] + EXTRA.get(name, [])
        env = dict(os.environ)
        if seed is not None:
            env["VERIF_SEED"] = seed
        r = subprocess.run([os.path.join(VERIF, "tools", "seeded_eval.py"), d] + checks, capture_output=True, text=True, env=env)
        try:
            res = json.loads(r.stdout)
        except Exception:
            print(name, "eval failed", r.stdout[-300:], r.stderr[-300:])
            continue
        if seed is not None:
            got = {c: bool(x.get("detected")) for c, x in res.get("checks", {}).items()}
            meta.setdefault("detected_by_seed", {})[seed] = got
            json.dump(meta, open(os.path.join(d, "meta.json"), "w"), indent=1)
            print(name, "seed", seed, got, flush=True)
            continue
        meta["patch_applies"] = res.get("patch_applies")
        meta["demo_fails_with_patch"] = res.get("demo_fails_with_patch")
        meta["demo_passes_without"] = res.get("demo_passes_without")
        meta["detected_by"] = {c: {k: v for k, v in x.items() if k != "stderr" or v} for c, x in res["checks"].items()}
        json.dump(meta, open(os.path.join(d, "meta.json"), "w"), indent=1)
    det = [c for c, x in meta.get("detected_by", {}).items() if x.get("detected")]
    miss = [c for c, x in meta.get("detected_by", {}).items() if not x.get("detected")]
    msg = next((x.get("message", "") for c, x in meta.get("detected_by", {}).items() if x.get("detected")), "")
    rows.append((name, meta["property"], meta.get("summary", "").replace("|", "/").replace("\n", " ")[:140], ", ".join(det) or "**none**", msg.replace("|", "/")[:110]))
    print(name, "detected by", det, "missed by", miss, flush=True)

print()
print("| change | property | what it is | caught by (quick tier) | first message |")
print("|---|---|---|---|---|")
for r in rows:
    print("| " + " | ".join(r) + " |")
