#!/usr/bin/env python3
"""tools/design_section5.py: rewrite the table of seeded changes in DESIGN.md
(between the SEEDED-TABLE markers) from seeded/*/meta.json."""
import glob, json, os, re

VERIF = os.path.dirname(os.path.dirname(os.path.abspath(__file__)))
rows = []
per_prop = {}
for d in sorted(glob.glob(os.path.join(VERIF, "seeded", "C*-*"))):
    name = os.path.basename(d)
    m = json.load(open(os.path.join(d, "meta.json")))
    db = m.get("detected_by", {})
    det = [c for c, x in db.items() if x.get("detected")]
    msg = next((x.get("message", "") for x in db.values() if x.get("detected")), "")
    seeds = m.get("detected_by_seed", {})
    also = []
    for sd, got in sorted(seeds.items()):
        also.append(f"seed {sd}: " + (", ".join(c for c, v in got.items() if v) or "none"))
    summ = re.sub(r"\s+", " ", m.get("summary", "")).replace("|", "/")
    sup = m.get("superseded")
    rows.append(
        "| {} | {} | {} | {} | {} |".format(
            name, summ[:150] + ("…" if len(summ) > 150 else ""),
            ("(superseded: harmless since a later fix) " if sup else "") + (", ".join(det) or "**none**"), "; ".join(also) or "—",
            msg.replace("|", "/")[:120],
        )
    )
    pp = per_prop.setdefault(m["property"], [0, 0])
    pp[0] += 1
    pp[1] += bool(det)
head = [
    "| change | what it is (author's summary, truncated) | caught by (quick tier, VERIF_SEED=1) | other seeds | first message of the check |",
    "|---|---|---|---|---|",
]
tot = sum(v[0] for v in per_prop.values())
hit = sum(v[1] for v in per_prop.values())
summary = (
    f"{tot} changes kept, {hit} detected by a quick-tier check. Per property (kept/detected): "
    + ", ".join(f"{k} {v[0]}/{v[1]}" for k, v in sorted(per_prop.items()))
    + "."
)
block = "\n".join(["<!-- SEEDED-TABLE-BEGIN -->", summary, ""] + head + rows + ["<!-- SEEDED-TABLE-END -->"])
p = os.path.join(VERIF, "DESIGN.md")
s = open(p).read()
s = re.sub(r"<!-- SEEDED-TABLE-BEGIN -->.*?<!-- SEEDED-TABLE-END -->", lambda _: block, s, flags=re.S)
open(p, "w").write(s)
print(summary)
