"""Per-property manifest metadata (edited as checks land)."""

NOT_YET = {}

GEN = "property-based testing (Hypothesis generated inputs vs independent reference oracle)"


def fill(add):
    add(
        "C01",
        "exploration",
        GEN + "; exhaustive tree enumeration sub-run",
        "Generated search over network x tree x option space with an exact (integer-valued) dense reference; thorough additionally enumerates every binary tree of the suite's fixed equations. Finds wrong values/axis orders within the explored bounds; does not prove absence.",
        "Trusts numpy broadcasting/sum in the reference evaluator (cross-checked against numpy.einsum on a sample); numpy backend; networks up to 12 tensors and ~1e6 dense volume.",
        "DESIGN.md 1/C01",
    )

    HIST = "model-based stateful property testing (Hypothesis-generated operation histories, op-list interpreter vs reference model)"
    add(
        "C02",
        "exploration",
        HIST,
        "Generated histories of tree transformations interleaved with contractions/queries, observed on the real tree, on a copy, or not at all, against an exact dense reference after every observed step. Finds stale-cache and mis-update defects reachable in <=10 steps on <=7 tensors; no proof of absence.",
        "Transformations that raise are counted and rolled back, not judged; forest/tempering drivers run serially or on harness-owned in-process pools emulating the pickle-boundary and scatter protocols (no real processes); numpy backend.",
        "DESIGN.md 1/C02",
    )
    add(
        "C03",
        "exploration",
        GEN,
        "Generated network x tree x sliced/projected labels x traversal order; every reported figure compared with an independent definition-level cost model (exact integers) and with the shapes recorded during real execution.",
        "Trusts the transcription of the property's definitions in vlib/ref.py:CostRef; numpy backend.",
        "DESIGN.md 1/C03",
    )
    add(
        "C04",
        "exploration",
        HIST,
        "Same history machine as C02 with the cost oracle: after each observed step all figures and per-node index sets equal a rebuild from (path, sliced labels) and the independent cost model; slice/unslice round trips restore snapshots; originals survive copies.",
        "As C02; the rebuild uses cotengra's own from_path/remove_ind, the independent CostRef guards against defects shared by both.",
        "DESIGN.md 1/C04",
    )
    add(
        "C06",
        "exploration",
        GEN + "; exhaustive over slice numbers within each case",
        "Generated network x tree x removal list; within each case every slice number is checked (bijection of slice keys, per-slice value, gather, lazily generated chunks tiling the output, full contract) against the fixed-label dense reference.",
        "Product of sliced sizes <= 96 per case; numpy backend.",
        "DESIGN.md 1/C06",
    )

    add(
        "C05",
        "exploration",
        GEN + " with a validity-predicate oracle and a deterministic step budget for non-termination",
        "Generated corner-case networks x every listed finder/preset/hyper method (parameters drawn from the registered search space) x entry points; oracle is a validity predicate on the returned path/tree plus a deterministic sys.monitoring step budget, so 'never returns' is detected reproducibly.",
        "kahypar C extension loops are only caught by the wall-clock watchdog (exit 2); igraph/quickbb/flowcutter absent.",
        "DESIGN.md 1/C05",
    )
    add(
        "C10",
        "exploration",
        GEN + " (round-trip and reference-simulation oracles)",
        "Generated trees, traversal orders (incl. tie-heavy callables), general/incomplete paths and edge orders; round trips must reproduce the node set computed from the drawn path itself and converters must agree with reference implementations.",
        "Edge paths name existing labels at most once.",
        "DESIGN.md 1/C10",
    )
    add(
        "C11",
        "exploration",
        GEN + "; exhaustive enumeration of the 3-symbol equation space",
        "Generated equations/shapes/axes plus (thorough) complete enumeration of all two-operand equations over 3 symbols, rank<=3, every ordered output and every shape assignment from {1,2,3}; exact comparison with an independent evaluator.",
        "Broadcast (size-1 vs n) shapes are judged against numpy.einsum; tensordot axes as int or pair of sequences, negative axis numbers included.",
        "DESIGN.md 1/C11",
    )
    add(
        "C12",
        "exploration",
        "grammar-based property testing (Hypothesis) with numpy.einsum as differential oracle",
        "Call forms generated from a grammar (ellipsis placement, implicit output, interleaved form, hashable labels, ncon) compared with numpy.einsum on identical arguments, or with the independent evaluator where numpy has no equivalent.",
        "numpy.einsum is the specification for string/interleaved forms; cases numpy rejects are skipped and counted.",
        "DESIGN.md 1/C12",
    )

    add(
        "C07",
        "exploration",
        GEN + " (conditional postcondition oracle)",
        "Generated network x tree x prior slicing x targets x allow_outer x objective x temperature/seed/repeats through SliceFinder.search and tree.slice; whenever an answer is returned its predicted figures are compared with the tree actually sliced and with the independent cost model, and every target/forbidden-label condition is checked.",
        "Conditional on the search returning (as the property is); refusals are counted, not judged; internal crashes of the finder (KeyError, IndexError, TypeError, ...) are reported as violations.",
        "DESIGN.md 1/C07",
    )
    add(
        "C09",
        "exploration",
        GEN + "; exhaustive enumeration of all (2n-3)!! trees as optimality oracle",
        "For each generated network (n<=6 quick, <=7 thorough) every binary tree is enumerated and scored by the independent cost model; the optimal finder's result must attain the minimum for each of 8 objectives, both search_outer settings and several initial cost caps.",
        "Enumeration bound n<=7; 8..10 tensors (thorough ..12) judged by an independent subset dynamic programme that is cross-checked against the enumeration for n<=6; networks constructed to have nothing to pre-simplify.",
        "DESIGN.md 1/C09",
    )
    add(
        "C18",
        "exploration",
        GEN + " (differential between four simulators and an independent model)",
        "The same generated contraction order is replayed step by step through the tree, the hypergraph, the raw contraction processor and the annealer's local evaluator; label sets, counts, sizes and flops must coincide with each other and with the independent model; optimizer-reported costs must equal the cost of the returned tree.",
        "Hypergraph arm restricted to ordinary networks; reported-cost arm uses simplify=True.",
        "DESIGN.md 1/C18",
    )
    add(
        "C19",
        "exploration",
        GEN + " (log-domain reference oracle)",
        "Generated network x tree x sliced labels x per-tensor decimal scales up to 1e+-100 through tree.contract / array_contract / einsum with strip_exponent; compared in the log domain with the exact contraction of the unscaled integer bases.",
        "Tolerance 1e-9 relative to the absolute-value contraction; strictly positive bases when slicing so the non-zero premise holds per slice.",
        "DESIGN.md 1/C19",
    )
    add(
        "C20",
        "exploration",
        GEN + " (metamorphic: uncapped == exact, capped <= uncapped)",
        "Generated ordinary networks x tree x order x compress_late x chi; uncapped compressed estimates must equal the independent exact figures and capped ones must not exceed them; compressed finders must return complete ordered trees on connected ordinary networks.",
        "Peak not asserted equal (different definitions); inputs counted in size/write by design.",
        "DESIGN.md 1/C20",
    )

    add(
        "C08",
        "exploration",
        "property-based testing over configurations and harness-owned schedules (Hypothesis-generated completion orders of a scheduled future pool, injected trial failures)",
        "Generated network x methods x objective x post-processing x max_repeats x executor; the completion order of a harness-owned pool is part of the generated (and shrinkable) case, failures are injected through a registered hyper method keyed on the drawn parameter; the winner's recorded figures are compared with the returned tree and the independent cost model.",
        "Real thread pools sample orders; process pools are emulated by a pickle boundary in the scheduled pool, not spawned; optlib random (cmaes with parametrised methods).",
        "DESIGN.md 1/C08",
    )
    add(
        "C17",
        "exploration",
        "differential property testing across fresh interpreters (generated seeded-API cases, 3 PYTHONHASHSEED values, perturbed global RNG)",
        "Each generated case is executed twice in each of three fresh interpreters with different string-hash seeds and differently perturbed global random/numpy state, with unrelated random calls in between; all digests must coincide.",
        "python backend, parallel=False; identical exceptions raised inside cotengra count as identical results (exceptions raised by the worker's own code are harness errors).",
        "DESIGN.md 1/C17",
    )

    add(
        "C13",
        "exploration",
        HIST + "; differential cached vs uncached",
        "Generated histories of interface calls over a pool of near-identical contractions (one cache-key component changed at a time, equal-hash values of different type), caches cleared per history; every value compared with the independent reference and with the same call made with caching disabled; explicit paths must come back unchanged.",
        "Collisions of 64-bit string hashes of genuinely different keys cannot be found by search (systematic integer collisions such as hash(-1)==hash(-2) are generated).",
        "DESIGN.md 1/C13",
    )
    add(
        "C14",
        "exploration",
        HIST + " with a counting hyper method observing whether a search ran",
        "Generated histories over one cache (memory or scratch directory, fresh optimizer objects standing in for new processes) against a model keyed by an independent fingerprint: hits only for equal queries, stored answers returned unchanged, zero trials on repeats and under cache_only, monotone stored score under overwrite='improved'.",
        "One live optimizer object per directory at a time (reload semantics); hash_method 'b' checked for validity only.",
        "DESIGN.md 1/C14",
    )
    add(
        "C15",
        "fault_enumeration",
        "fault-injection enumeration over generated scenarios (every crash point of the writing process from a logged dry run; fresh-process oracle)",
        "For each generated scenario every crash point of the storing process is executed: death before each file-system mutation under the cache directory and inside each write after every byte count; a fresh process must then answer the query (searching again or serving exactly the old/new answer) and still serve earlier entries.",
        "Process death only (no power loss); mutations through builtins.open/os.mkdir/os.replace/os.rename/os.unlink; forked reader processes stand in for later processes.",
        "DESIGN.md 1/C15",
    )
    add(
        "C16",
        "exploration",
        "property-based testing over call sequences plus systematic schedule enumeration (harness-owned sys.settrace scheduler, all 1-preemption schedules; <=2 in thorough), plus a real-thread stress mode for optimizers with an internal pool",
        "Generated query sequences through every reusable optimizer kind, and real threads sharing one optimizer under a harness-owned scheduler that serialises them at line granularity in reusable.py/presets.py/hyper.py; every returned tree/path must belong to its own query.",
        "Preemption bound 2; yield points = Python lines of the named files; max_time=None so schedules do not depend on the clock. The pooled stress mode (one case in sixteen) runs under the operating system's schedule: it can miss, it cannot raise a false alarm.",
        "DESIGN.md 1/C16",
    )
