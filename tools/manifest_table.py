"""Per-property manifest metadata (edited as checks land)."""

NOT_YET = {}

GEN = "property-based testing (Hypothesis generated inputs vs independent reference oracle)"


def fill(add):
    add(
        "C01",
        "exploration",
        GEN + "; exhaustive tree enumeration sub-run",
        "Generated search over network x tree x option space with an exact (integer-valued) dense reference; thorough additionally enumerates every binary tree of the suite's fixed equations. Finds wrong values/axis orders within the explored bounds; does not prove absence.",
        "Trusts numpy broadcasting/sum in the reference evaluator (cross-checked against numpy.einsum on a sample); numpy backend; networks up to 12 tensors and ~1e6 dense volume.",
        "DESIGN.md 1/C01",
    )
