#!/usr/bin/env python3
"""tools/seeded_suite.py <seeded-dir>...: run the repository's own test-suite on a
scratch copy of /repo HEAD with the seeded patch applied; record the summary
line in meta.json (key "suite"). The two baseline chocolate failures are
deselected."""
import json, os, shutil, subprocess, sys, tempfile, time

PY = "/venv/bin/python"
for d in [a for a in sys.argv[1:] if not a.startswith("--")]:
    d = os.path.abspath(d)
    mp = os.path.join(d, "meta.json")
    meta = json.load(open(mp))
    if meta.get("suite", "").find("passed") >= 0 and "--force" not in sys.argv:
        print(os.path.basename(d), "already:", meta["suite"]); continue
    scratch = tempfile.mkdtemp(prefix="ssuite-")
    try:
        subprocess.run(f"git -C /repo archive HEAD | tar -x -C {scratch}", shell=True, check=True)
        subprocess.run(f"cd {scratch} && patch -p1 -s --no-backup-if-mismatch < {d}/patch.diff", shell=True, check=True)
        t0 = time.time()
        r = subprocess.run(
            f"cd {scratch} && OMP_NUM_THREADS=1 OPENBLAS_NUM_THREADS=1 timeout -k 5 1200 {PY} -m pytest -q -p no:cacheprovider -n 8 --timeout=600 "
            "--deselect 'tests/test_optimizers.py::test_hyper[False-chocolate-chocolate]' "
            "--deselect 'tests/test_optimizers.py::test_hyper[True-chocolate-chocolate]' 2>&1 | tail -4",
            shell=True, capture_output=True, text=True)
        line = [l for l in r.stdout.strip().splitlines() if "passed" in l or "failed" in l or "error" in l]
        meta["suite"] = (line[-1] if line else r.stdout.strip()[-200:]).strip()
        meta["suite_seconds"] = round(time.time() - t0)
        meta["suite_cmd"] = "pytest -q -n 8 --timeout=900 (two baseline chocolate failures deselected) on a scratch copy of /repo HEAD + patch"
        json.dump(meta, open(mp, "w"), indent=1)
        print(os.path.basename(d), meta["suite"], flush=True)
    finally:
        shutil.rmtree(scratch, ignore_errors=True)
