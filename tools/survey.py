#!/venv/bin/python
"""tools/survey.py <ID> [N] [seed]: run N generated cases without stopping at
the first failure and bucket violations by message shape (root-cause triage)."""
import collections, importlib, json, os, re, sys, warnings
warnings.filterwarnings("ignore")
HERE = os.path.dirname(os.path.dirname(os.path.abspath(__file__)))
sys.path.insert(0, HERE)
sys.path.insert(0, os.environ.get("VERIF_REPO", "/repo"))
from hypothesis import HealthCheck, Phase, given, seed, settings
prop = sys.argv[1].upper()
N = int(sys.argv[2]) if len(sys.argv) > 2 else 500
sd = int(sys.argv[3]) if len(sys.argv) > 3 else 1
mod = importlib.import_module(f"vlib.props.{prop.lower()}")
buckets = collections.OrderedDict()
count = [0]
def norm(v):
    v = re.sub(r"\d+", "#", v)
    v = re.sub(r"'[^']*'", "'_'", v)
    return v[:160]
@seed(sd)
@settings(max_examples=N, database=None, deadline=None, suppress_health_check=list(HealthCheck), phases=(Phase.generate,))
@given(mod.strategy("quick"))
def t(spec):
    count[0] += 1
    out = mod.run_case(spec)
    for v in out.violations[:1]:
        k = norm(v)
        b = buckets.setdefault(k, [0, None, None])
        b[0] += 1
        if b[1] is None or len(json.dumps(spec, default=str)) < len(json.dumps(b[1], default=str)):
            b[1], b[2] = spec, v
t()
print(f"{count[0]} cases, {sum(b[0] for b in buckets.values())} failing, {len(buckets)} buckets")
for k, (c, spec, v) in sorted(buckets.items(), key=lambda kv: -kv[1][0]):
    print(f"--- {c}x {v}")
    print("    ", json.dumps(spec, default=str)[:600])
