"""python -m vlib.regress <ID> <outfile> <file>...: replay saved failing inputs
(``regress/<ID>/*.json``) through the property's ``run_case``, bypassing
Hypothesis.  Each file is the shrunk spec of a violation that a check found on
a tree WITH a defect (a repaired defect of the pinned tree, before its fix; or
an independently written breaking change) and that passes on the repaired tree.
Writes a JSON list of {file, violations, nontrivial, classes} to <outfile>.
Exit 0 when every file was evaluated (violations are in the file), 2 on
harness trouble.
"""

import importlib
import json
import os
import sys
import traceback
import warnings


def main(argv):
    prop, outfile, files = argv[0], argv[1], argv[2:]
    warnings.filterwarnings("ignore")
    try:  # the same address space ceiling as a shard (see vlib/shard.py)
        import resource

        lim = int(os.environ.get("VERIF_SHARD_AS_GB", "12")) << 30
        resource.setrlimit(resource.RLIMIT_AS, (lim, lim))
    except Exception:  # noqa
        pass
    from . import harness

    harness.assert_repo_import()
    mod = importlib.import_module(f"vlib.props.{prop.lower()}")
    fn = getattr(mod, "replay", None) or mod.run_case
    sigs = getattr(mod, "KNOWN", {})
    known = {sig: sigs[sig] for sig, _ in harness.load_known_findings(mod.ID) if sig in sigs}
    res = []
    for path in files:
        with open(path) as f:
            data = json.load(f)
        spec = data["spec"]
        out = fn(spec)
        viol = [v for v in out.violations if not any(pred(spec, v) for pred in known.values())]
        res.append(
            {
                "file": os.path.relpath(path, harness.VERIF_DIR),
                "violations": viol[:10],
                "nontrivial": bool(out.nontrivial),
                "origin": data.get("origin", ""),
            }
        )
    harness.write_json(outfile, res)
    return 0


if __name__ == "__main__":
    try:
        code = main(sys.argv[1:])
    except BaseException:  # noqa
        traceback.print_exc()
        code = 2
    sys.stdout.flush()
    sys.stderr.flush()
    os._exit(code)
