"""Model-based state machine over ContractionTree histories (C02, C04).

A history is plain data: a list of op dicts.  State dependent arguments are
stored as integers and resolved modulo the options available when the op is
interpreted, so any list of ops is a valid history (construction, not
rejection), shrinks by deleting ops, and replays without Hypothesis.

Two oracles:
  * value  (C02): tree.contract(arrays) == dense reference (fixed-index
    section when labels are projected);
  * cost   (C04): every figure equals a from-scratch rebuild from
    (get_path(), sliced labels) and the independent CostRef.

Each op carries ``obs``: how the state is observed after it - on the real
tree (perturbs lazily filled caches, which is part of the history), on a
copy (does not), or not at all.  The final state is always observed on the
real tree.
"""

import contextlib
import io

import numpy as np
from hypothesis import strategies as st

from . import gen, pools, ref
from .harness import CaseTimeout, Outcome, case_alarm, guarded

# wall-clock allowance of one transformation (only ever makes the machine skip
# an op, e.g. when a seeded defect turns it into an endless loop)
OP_SECONDS = 30

MINIMIZE = ["flops", "size", "write", "combo", "limit"]
# None = the tree's own default objective (drawn with the initial tree)
MINIMIZE_OR_DEFAULT = MINIMIZE + [None]
INIT_HOW = ["path", "path", "ssa", "group_all:greedy", "group_all:optimal", "prefix"]

# exceptions that are a (documented or evident) refusal of an impossible
# request rather than a wrong answer
REFUSALS = (
    "Ran out of valid indices",
    "max() arg is an empty sequence",
    "max() iterable argument is empty",
    "min() arg is an empty sequence",
    "min() iterable argument is empty",
    "already sliced",
)


# ---------------------------------------------------------------------------
# strategies
# ---------------------------------------------------------------------------

OBS = st.sampled_from(["real", "real", "copy", "none"])
# executor handed to the forest / tempering drivers: none (serial), a pool
# whose tasks cross a pickle boundary (process-pool protocol), or a scatter
# pool (ray/dask protocol: trees live 'remotely' as futures) - vlib/pools.py
POOLS = st.sampled_from(["none", "none", "pickle", "scatter"])


def _reconf_kw():
    return st.fixed_dictionaries(
        {
            "subtree_size": st.integers(2, 6),
            "subtree_search": st.sampled_from(["bfs", "dfs", "random"]),
            "weight_what": st.sampled_from(["flops", "size"]),
            "weight_pwr": st.integers(1, 3),
            "select": st.sampled_from(["max", "min", "random"]),
            "maxiter": st.integers(1, 5),
            "minimize": st.sampled_from(MINIMIZE_OR_DEFAULT),
            "seed": st.integers(0, 99),
        }
    )


def _contract_opts():
    return st.fixed_dictionaries(
        {
            "order": st.sampled_from([None, "dfs", "surface_order", "len"]),
            "prefer_einsum": st.booleans(),
            "impl": st.sampled_from([None, None, "cotengra", "autoray"]),
        }
    )


def _op_name(strategy):
    """The constant under 'op' of one of the fixed_dictionaries below."""
    return strategy.wrapped_strategy.mapping["op"].value


def op_strategy(kinds=None):
    """One operation; ``kinds`` restricts the choice to operations of these
    names - by construction, not by filtering."""
    tsf = st.sampled_from([0, 2, 4, 16, -1])
    ops = [
        st.fixed_dictionaries(
            {"op": st.just("reconf"), "inplace": st.booleans(), "kw": _reconf_kw()}
        ),
        st.fixed_dictionaries(
            {
                "op": st.just("reconf_forest"),
                "inplace": st.booleans(),
                "pool": POOLS,
                "kw": st.fixed_dictionaries(
                    {
                        "num_trees": st.integers(2, 3),
                        "num_restarts": st.integers(1, 2),
                        "subtree_maxiter": st.integers(1, 3),
                        "subtree_size": st.integers(2, 5),
                        "minimize": st.sampled_from(MINIMIZE_OR_DEFAULT),
                        "seed": st.integers(0, 99),
                    }
                ),
            }
        ),
        st.fixed_dictionaries(
            {
                "op": st.just("anneal"),
                "inplace": st.booleans(),
                "tsf": tsf,
                "kw": st.fixed_dictionaries(
                    {
                        "tsteps": st.integers(1, 3),
                        "numiter": st.integers(1, 3),
                        "minimize": st.sampled_from(MINIMIZE_OR_DEFAULT),
                        "seed": st.integers(0, 99),
                        "slice_mode": st.sampled_from(["basic", "reslice", "drift", 2]),
                        "tstart": st.sampled_from([2, 100.0]),
                    }
                ),
            }
        ),
        st.fixed_dictionaries(
            {
                "op": st.just("temper"),
                "inplace": st.booleans(),
                "pool": POOLS,
                "tsf": tsf,
                "kw": st.fixed_dictionaries(
                    {
                        "tsteps": st.integers(1, 2),
                        "numiter": st.integers(1, 2),
                        "num_trees": st.integers(2, 3),
                        "minimize": st.sampled_from(MINIMIZE),
                        "seed": st.integers(0, 99),
                        "slice_mode": st.sampled_from(["basic", "reslice", "drift"]),
                        "parallel_slice_mode": st.sampled_from(
                            ["temperature", "time", "constant"]
                        ),
                    }
                ),
            }
        ),
        st.fixed_dictionaries(
            {
                "op": st.just("remove"),
                "inplace": st.booleans(),
                "k": st.integers(0, 30),
                "where": st.sampled_from(["any", "output", "inner", "multi"]),
                "project": st.one_of(st.none(), st.integers(0, 7)),
            }
        ),
        st.fixed_dictionaries(
            {
                "op": st.just("remove"),
                "inplace": st.booleans(),
                "k": st.integers(0, 30),
                "where": st.sampled_from(["any", "output", "inner", "multi"]),
                "project": st.none(),
            }
        ),
        st.fixed_dictionaries(
            {"op": st.just("restore"), "inplace": st.booleans(), "k": st.integers(0, 30)}
        ),
        st.fixed_dictionaries(
            {
                "op": st.just("unslice_rand"),
                "inplace": st.booleans(),
                "seed": st.integers(0, 99),
            }
        ),
        st.fixed_dictionaries({"op": st.just("unslice_all"), "inplace": st.booleans()}),
        st.fixed_dictionaries(
            {
                "op": st.just("slice"),
                "inplace": st.booleans(),
                "target": st.sampled_from(["size", "slices", "overhead"]),
                "tv": st.sampled_from([2, 3, 4, 8]),
                "kw": st.fixed_dictionaries(
                    {
                        "allow_outer": st.sampled_from([True, True, False, "only"]),
                        "reslice": st.booleans(),
                        "seed": st.integers(0, 99),
                        "max_repeats": st.integers(1, 4),
                        "temperature": st.sampled_from([0.01, 1.0]),
                        "minimize": st.sampled_from(MINIMIZE),
                    }
                ),
            }
        ),
        st.fixed_dictionaries(
            {
                "op": st.just("slice_reconf"),
                "inplace": st.booleans(),
                "tv": st.sampled_from([2, 4]),
                "forested": st.booleans(),
                "kw": st.fixed_dictionaries(
                    {
                        "step_size": st.integers(2, 3),
                        "max_repeats": st.integers(1, 3),
                        "reslice": st.booleans(),
                        "allow_outer": st.sampled_from([True, True, False]),
                        "minimize": st.sampled_from(MINIMIZE),
                    }
                ),
            }
        ),
        st.fixed_dictionaries(
            {
                "op": st.just("slice_reconf_forest"),
                "inplace": st.booleans(),
                "pool": POOLS,
                "tv": st.sampled_from([2, 4]),
                "kw": st.fixed_dictionaries(
                    {
                        "step_size": st.integers(2, 3),
                        "num_trees": st.integers(2, 3),
                        "max_repeats": st.integers(1, 3),
                        "minimize": st.sampled_from(MINIMIZE),
                    }
                ),
            }
        ),
        st.fixed_dictionaries(
            {
                "op": st.just("sort"),
                "kw": st.fixed_dictionaries(
                    {
                        "priority": st.sampled_from(["flops", "size", "root", "leaves"]),
                        "make_output_contig": st.booleans(),
                        "make_contracted_contig": st.booleans(),
                        "reset": st.booleans(),
                    }
                ),
            }
        ),
        st.fixed_dictionaries({"op": st.just("reset_inds")}),
        st.fixed_dictionaries({"op": st.just("copy"), "keep": st.booleans()}),
        st.fixed_dictionaries({"op": st.just("contract"), "opts": _contract_opts()}),
        st.fixed_dictionaries(
            {
                "op": st.just("query"),
                "which": st.sampled_from(
                    [
                        "contract_stats",
                        "total_flops",
                        "total_write",
                        "max_size",
                        "peak_size",
                        "combo_cost",
                        "get_path",
                        "get_ssa_path",
                        "print_contractions",
                        "has_preprocessing",
                        "describe",
                        "get_eq_sliced",
                        "get_shapes_sliced",
                        "get_inputs_sliced",
                        "contraction_width",
                        "contraction_cost",
                        "arithmetic_intensity",
                        "contraction_scaling",
                        "get_hypergraph",
                        "compute_centralities",
                        "flat_tree",
                        "get_leaves_ordered",
                        "get_score",
                        "get_numpy_path",
                        "get_path_surface",
                        "contract_stats_force",
                        "repr",
                    ]
                ),
            }
        ),
        st.fixed_dictionaries(
            {
                "op": st.just("slice_unslice"),
                "ks": st.lists(st.integers(0, 30), min_size=1, max_size=3),
                "perm": st.integers(0, 5),
            }
        ),
    ]

    def with_obs(d):
        return st.tuples(d, OBS).map(lambda t: {**t[0], "obs": t[1]})

    if kinds is not None:
        ops = [o for o in ops if _op_name(o) in kinds]
    return st.one_of(*[with_obs(o) for o in ops])


@st.composite
def histories(draw, max_n=7, max_ops=10):
    mode = draw(st.integers(0, 7))
    net = draw(
        gen.networks(
            min_n=2 if mode < 6 else 5, max_n=max_n if mode < 6 else max(max_n, 10 if mode == 6 else 8), max_dim=4, volume_limit=2**16
        )
    )
    path = draw(gen.linear_paths(len(net["inputs"])))
    THEMES = {
        # related operations in a row (state one leaves behind is what the next meets)
        "anneal+slicing": {"anneal", "temper", "slice", "remove", "restore", "unslice_rand", "unslice_all", "slice_reconf"},
        "reconf+slicing": {"reconf", "reconf_forest", "slice", "remove", "restore", "unslice_all", "slice_reconf", "slice_reconf_forest", "copy"},
        "slicing": {"remove", "restore", "slice", "unslice_rand", "unslice_all", "slice_unslice", "contract", "copy"},
        "recipes": {"sort", "reset_inds", "contract", "reconf", "anneal", "remove", "restore", "copy"},
    }
    if mode == 7:
        # explicit index orders (sort_contraction_indices) are compiled into
        # contraction recipes by a first contraction; then labels are sliced
        # and restored again (which changes the legs of the nodes above), and
        # the tree must still contract right: with the recipes of its nodes
        # as they are NOW
        def pick(kinds):
            return draw(op_strategy(kinds))

        ops = [dict(pick({"sort"}), obs="none"), dict(pick({"contract"}), obs="none")]
        for _ in range(draw(st.integers(1, 2))):
            ops.append(dict(pick({"remove"}), inplace=True, where=draw(st.sampled_from(["inner", "multi", "any"])), obs=draw(st.sampled_from(["none", "none", "real"]))))
        for _ in range(draw(st.integers(1, 2))):
            ops.append(dict(pick({"restore", "unslice_rand", "unslice_all"}), inplace=True, obs="none"))
        if draw(st.booleans()):
            ops.append(dict(pick({"remove", "sort", "contract"}), obs="none"))
    elif mode >= 6:
        # a SLICED tree is annealed / tempered without a size target (which
        # leaves the slicing alone) and then again with one (which slices and
        # unslices as it goes): whatever the first run left attached to the
        # tree meets a changing set of sliced labels in the second
        def pick(kinds):
            return draw(op_strategy(kinds))

        ops = [dict(pick({"remove"}), project=None, inplace=True, obs="none") for _ in range(draw(st.integers(1, 2)))]
        ops.append(dict(pick({"anneal", "temper"}), tsf=0, inplace=True, obs="none"))
        second = dict(pick({"anneal", "temper"}), tsf=draw(st.sampled_from([-1, -1, 2, 16])), obs=draw(st.sampled_from(["none", "real"])))
        # (enough temperature steps for the slicing schedule to act)
        second["kw"] = dict(second["kw"], tsteps=3, numiter=3)
        ops.append(second)
        if draw(st.booleans()):
            ops.append(dict(pick({"anneal", "temper", "unslice_rand", "slice"}), obs="none"))
    elif mode == 5:
        theme = draw(st.sampled_from(sorted(THEMES)))
        allowed = THEMES[theme]
        ops = draw(
            st.lists(op_strategy(allowed), min_size=3, max_size=7)
        )
        # mostly unobserved in between
        ops = [dict(o, obs=draw(st.sampled_from(["none", "none", "copy", "real"]))) for o in ops]
    elif mode in (0, 1):
        # short unobserved chains: two or three transformations with nothing
        # looking at the tree in between (stale lazily filled caches survive
        # only until the first observation), final state observed
        k = draw(st.integers(2, 3))
        chain = draw(st.lists(op_strategy(), min_size=k, max_size=k))
        ops = []
        for j, o in enumerate(chain):
            o = dict(o)
            o["obs"] = draw(st.sampled_from(["none", "none", "copy"]))
            ops.append(o)
        if draw(st.booleans()):
            # ... optionally with the caches warmed up first
            warm = draw(st.sampled_from(["contract", "query"]))
            if warm == "contract":
                ops.insert(0, {"op": "contract", "opts": {"order": None, "prefer_einsum": False, "impl": None}, "obs": "none"})
            else:
                ops.insert(0, {"op": "query", "which": "contract_stats", "obs": "none"})
    else:
        ops = draw(st.lists(op_strategy(), min_size=1, max_size=max_ops))
    # how the initial tree is made: from my path (linear or SSA form), by a
    # real finder (one all-tensor step resolved by ``optimize``), or from a
    # prefix of the path completed automatically; with any of the incremental
    # trackers switched on from the start, and with a default objective
    init = {
        "how": draw(st.sampled_from(INIT_HOW)),
        "track": draw(st.lists(st.booleans(), min_size=4, max_size=4)),
        "check": draw(st.booleans()),
        "objective": draw(st.sampled_from([None, None, "flops", "size", "write", "combo"])),
        "cut": draw(st.integers(0, 6)),
    }
    return {
        "net": net,
        "path": path,
        "ops": ops,
        "mode": mode,
        "aseed": draw(st.integers(0, 2**16)),
        "dtype": draw(st.sampled_from(["f", "c"])),
        "init": init,
    }


# ---------------------------------------------------------------------------
# interpreter
# ---------------------------------------------------------------------------

STRUCT_OPS = {
    "reconf", "reconf_forest", "anneal", "temper", "remove", "restore",
    "unslice_rand", "unslice_all", "slice", "slice_reconf",
    "slice_reconf_forest", "slice_unslice",
}
SLICE_OPS = {
    "remove", "restore", "unslice_rand", "unslice_all", "slice",
    "slice_reconf", "slice_reconf_forest", "slice_unslice",
}
RECONF_OPS = {"reconf", "reconf_forest", "anneal", "temper", "slice_reconf", "slice_reconf_forest"}


class Machine:
    def __init__(self, spec, oracle):
        import cotengra as ctg

        self.ctg = ctg
        self.oracle = oracle
        net = spec["net"]
        self.inputs = [tuple(t) for t in net["inputs"]]
        self.output = tuple(net["output"])
        self.sizes = dict(net["sizes"])
        self.n = len(self.inputs)
        self.labels = list(dict.fromkeys(ix for t in self.inputs for ix in t))
        self.arrays = ref.make_arrays(
            self.inputs, self.sizes, spec["aseed"], spec["dtype"]
        )
        self.viol = []
        self.proj = {}
        self.kept = []  # (tree, snapshot)
        self.counts = {}
        self.tree = None
        self._ref_cache = {}
        self.spec = spec

    # -- helpers -------------------------------------------------------------

    def count(self, k):
        self.counts[k] = self.counts.get(k, 0) + 1

    def expected(self):
        key = tuple(sorted(self.proj.items()))
        if key not in self._ref_cache:
            self._ref_cache[key] = ref.dense_ref(
                self.inputs, self.output, self.sizes, self.arrays, fixed=self.proj
            )
        return self._ref_cache[key]

    def sync_proj(self, tree, asked=None):
        """The set of projected labels is read back from the tree (searches
        may unslice a projected label and slice it again); only a projection
        the history itself just asked for (``asked`` = (label, value)) is
        checked against what the tree remembers."""
        if asked is not None:
            ix, v = asked
            si = tree.sliced_inds.get(ix)
            if si is None or si.project != v:
                self.viol.append(
                    f"asked to project {ix}={v}, tree remembers "
                    f"{None if si is None else si.project}"
                )
        self.proj = {
            ix: si.project
            for ix, si in tree.sliced_inds.items()
            if si.project is not None
        }

    # -- oracles -------------------------------------------------------------

    def check_value(self, tree, what, opts=None):
        opts = opts or {"order": None, "prefer_einsum": False, "impl": None}
        kw = {"prefer_einsum": opts["prefer_einsum"]}
        kw["order"] = len if opts["order"] == "len" else opts["order"]
        if opts["impl"] is not None:
            kw["implementation"] = opts["impl"]
        ok, got = guarded(tree.contract, self.arrays, **kw)
        if not ok:
            self.viol.append(f"{what}: contract raised {got}")
            return
        exp = self.expected()
        got = np.asarray(got)
        full_shape = tuple(
            1 if ix in self.proj else self.sizes[ix] for ix in self.output
        )
        if tuple(got.shape) not in (full_shape, tuple(exp.shape)):
            self.viol.append(
                f"{what}: result shape {tuple(got.shape)} not the declared "
                f"output {full_shape} (projected labels pinned)"
            )
            return
        if not np.array_equal(got.reshape(exp.shape), exp):
            self.viol.append(
                f"{what}: contract value differs from dense reference "
                f"(max abs err {float(np.max(np.abs(got.reshape(exp.shape) - exp))):.3g})"
            )

    def snapshot(self, tree):
        """All cost figures and per-node index sets a tree reports."""
        snap = {}
        snap["stats"] = dict(tree.contract_stats())
        snap["total_flops"] = tree.total_flops()
        snap["total_write"] = tree.total_write()
        snap["max_size"] = tree.max_size()
        snap["multiplicity"] = tree.multiplicity
        snap["nslices"] = tree.nslices
        snap["sliced_inputs"] = sorted(tree.sliced_inputs)
        snap["sliced"] = [
            (ix, si.inner, si.size, si.project) for ix, si in tree.sliced_inds.items()
        ]
        tree.has_preprocessing()
        snap["preprocessing"] = dict(sorted(tree.preprocessing.items()))
        nodes = {}
        for node in tree.info:
            if len(node) == 1:
                nodes[tuple(sorted(node))] = (
                    frozenset(tree.get_legs(node)),
                    None,
                    tree.get_size(node),
                    0,
                )
            else:
                nodes[tuple(sorted(node))] = (
                    frozenset(tree.get_legs(node)),
                    frozenset(tree.get_involved(node)),
                    tree.get_size(node),
                    tree.get_flops(node),
                )
        snap["nodes"] = nodes
        snap["peak"] = tree.peak_size()
        snap["combo"] = tree.combo_cost(factor=4)
        snap["limit"] = tree.combo_cost(factor=4, combine=max)
        return snap

    def diff_snap(self, a, b):
        out = []
        for k in a:
            if k == "nodes":
                if set(a[k]) != set(b[k]):
                    out.append("node sets differ")
                    continue
                for nd in a[k]:
                    if a[k][nd] != b[k][nd]:
                        out.append(
                            f"node {list(nd)}: (legs, involved, size, flops) "
                            f"{_fmt(a[k][nd])} vs {_fmt(b[k][nd])}"
                        )
                        break
            elif a[k] != b[k]:
                out.append(f"{k}: {a[k]} vs {b[k]}")
        return out

    def check_cost(self, tree, what):
        ctg = self.ctg
        ok, snap = guarded(self.snapshot, tree)
        if not ok:
            self.viol.append(f"{what}: cost query raised {snap}")
            return
        # (i) rebuild from (path, sliced labels)
        def rebuild():
            t2 = ctg.ContractionTree.from_path(
                self.inputs, self.output, self.sizes, path=tree.get_path()
            )
            for ix, si in tree.sliced_inds.items():
                t2.remove_ind_(ix, project=si.project)
            return self.snapshot(t2)

        ok, snap2 = guarded(rebuild)
        if not ok:
            self.viol.append(f"{what}: rebuild raised {snap2}")
            return
        for d in self.diff_snap(snap, snap2)[:3]:
            self.viol.append(f"{what}: live tree vs rebuild: {d}")
        # (i') the figures behind the default 'surface' order: a node's
        # centrality is the mean of its children's (leaves: the network's own,
        # which no transformation changes), and asking for the surface path
        # twice gives the same path
        def surface():
            leaf_c = tree.get_hypergraph().simple_centrality()
            exp = {leaf: leaf_c[i] for i, leaf in enumerate(tree.gen_leaves())}
            bad = None
            for p_, l_, r_ in tree.traverse("dfs"):
                exp[p_] = (exp[l_] + exp[r_]) / 2
            # (asked from the root downwards, the way an ordered traversal does)
            for p_ in sorted((q for q in exp if len(q) > 1), key=len, reverse=True):
                c_ = tree.get_centrality(p_)
                if c_ != exp[p_] and bad is None:
                    bad = (sorted(p_), c_, exp[p_])
            got1 = tree.get_path_surface()
            got2 = tree.get_path_surface()
            return bad, got1, got2

        if tree.N >= 2 and tree.is_complete():
            ok, r_ = guarded(surface)
            if not ok:
                self.viol.append(f"{what}: get_path_surface / get_centrality raised {r_}")
            else:
                bad, got1, got2 = r_
                if got1 != got2:
                    self.viol.append(
                        f"{what}: get_path_surface() asked twice in a row gives {got1} and then {got2}"
                    )
                elif bad is not None:
                    self.viol.append(
                        f"{what}: node {bad[0]} reports centrality {bad[1]}, the mean of its children's is {bad[2]} "
                        "(a value left over from before the tree was restructured)"
                    )
        # (ii) independent model
        removed = [(ix, p) for ix, _, _, p in snap["sliced"]]
        cr = ref.CostRef(self.inputs, self.output, self.sizes, removed)
        steps = [(p, l, r) for p, l, r in tree.traverse()]
        st_ = cr.stats(steps)
        if (st_["flops"], st_["write"], st_["size"]) != (
            snap["stats"]["flops"], snap["stats"]["write"], snap["stats"]["size"],
        ):
            self.viol.append(
                f"{what}: contract_stats {snap['stats']} != definition "
                f"{{flops: {st_['flops']}, write: {st_['write']}, size: {st_['size']}}}"
            )
        if snap["multiplicity"] != cr.nslices:
            self.viol.append(
                f"{what}: multiplicity {snap['multiplicity']} != {cr.nslices}"
            )
        for p, l, r in steps:
            legs, inv, size, flops = snap["nodes"][tuple(sorted(p))]
            if (
                set(legs) != set(cr.legs(p))
                or set(inv) != set(cr.involved(l, r))
                or size != cr.size(p)
                or flops != cr.flops(l, r)
            ):
                self.viol.append(
                    f"{what}: node {sorted(p)} reports legs={sorted(legs)} "
                    f"involved={sorted(inv)} size={size} flops={flops}; definition "
                    f"legs={sorted(cr.legs(p))} involved={sorted(cr.involved(l, r))} "
                    f"size={cr.size(p)} flops={cr.flops(l, r)}"
                )
                break
        if snap["peak"] != cr.peak(steps):
            self.viol.append(f"{what}: peak_size {snap['peak']} != {cr.peak(steps)}")
        sl_inputs = sorted(
            i for i, t in enumerate(self.inputs) if any(ix in cr.gone for ix in t)
        )
        if snap["sliced_inputs"] != sl_inputs:
            self.viol.append(
                f"{what}: sliced_inputs {snap['sliced_inputs']} != {sl_inputs}"
            )
        return snap

    def check_complete(self, tree, what):
        ok, c = guarded(tree.is_complete)
        if not ok or not c:
            self.viol.append(f"{what}: tree not complete ({c})")
            return False
        if len(tree.children) != self.n - 1 or len(tree.info) != 2 * self.n - 1:
            self.viol.append(f"{what}: tree has wrong node count")
            return False
        return True

    def observe(self, tree, what):
        if not self.check_complete(tree, what):
            return
        if self.oracle == "value":
            self.check_value(tree, what)
        else:
            self.check_cost(tree, what)

    # -- ops -------------------------------------------------------------------

    def run(self):
        ctg = self.ctg
        ok, tree = guarded(self.initial_tree)
        if not ok:
            self.viol.append(f"from_path raised {tree}")
            return
        self.tree = tree
        log = []
        for k, op in enumerate(self.spec["ops"]):
            name = op["op"]
            what = f"after op#{k} {name}"
            backup = self.tree.copy()
            backup_proj = dict(self.proj)
            self.prev_tree = self.tree
            try:
                with case_alarm(OP_SECONDS):
                    status = self.apply(op, what)
            except CaseTimeout:
                # inconclusive: the op is skipped and rolled back, never judged
                status = "raised"
                self.count(f"raised:{name}:timeout")
            log.append((name, status))
            self.count(f"op:{name}:{status}")
            if self.viol:
                return log
            if status in ("refused", "raised"):
                self.tree = backup
                self.proj = backup_proj
                continue
            if (
                status == "ok"
                and name in STRUCT_OPS
                and not op.get("inplace", True)
                and len(self.kept) < 3
            ):
                # inplace=False must leave the original alone: keep it, with
                # the figures it reported before the op, for the final check
                snap0 = None
                if self.oracle == "cost":
                    ok, snap0 = guarded(self.snapshot, backup)
                    if not ok:
                        snap0 = None
                if self.oracle == "value" or snap0 is not None:
                    self.kept.append((self.prev_tree, backup_proj, snap0))
            self.sync_proj(self.tree)
            obs = op.get("obs", "real")
            if obs == "real":
                self.observe(self.tree, what)
            elif obs == "copy":
                self.observe(self.tree.copy(), what + " (on copy)")
            if self.viol:
                return log
        self.observe(self.tree, "final state")
        # originals kept across ``copy`` must not have been disturbed
        for j, (t0, proj0, snap0) in enumerate(self.kept):
            if self.viol:
                break
            saved = self.proj
            self.proj = proj0
            if self.oracle == "value":
                self.check_value(t0, f"original kept at copy#{j}")
            else:
                ok, s1 = guarded(self.snapshot, t0)
                if not ok:
                    self.viol.append(f"original kept at copy#{j}: query raised {s1}")
                else:
                    for d in self.diff_snap(snap0, s1)[:2]:
                        self.viol.append(
                            f"original kept at copy#{j} changed after the copy was mutated: {d}"
                        )
            self.proj = saved
        return log

    def initial_tree(self):
        ctg = self.ctg
        init = self.spec.get("init") or {}
        how = init.get("how", "path")
        path = [tuple(p) for p in self.spec["path"]]
        kw = {}
        tr = init.get("track") or [False] * 4
        for flag, on in zip(("track_childless", "track_flops", "track_write", "track_size"), tr):
            if on:
                kw[flag] = True
        if init.get("objective"):
            kw["objective"] = init["objective"]
        if init.get("check"):
            kw["check"] = True
        if self.n >= 2 and how.startswith("group_all"):
            opt = how.split(":")[1]
            if opt == "optimal" and self.n > 6:
                opt = "greedy"
            self.count(f"init:group_all:{opt}")
            return ctg.ContractionTree.from_path(
                self.inputs, self.output, self.sizes,
                path=[tuple(range(self.n))], optimize=opt, **kw,
            )
        if how == "ssa":
            self.count("init:ssa")
            return ctg.ContractionTree.from_path(
                self.inputs, self.output, self.sizes,
                ssa_path=ref.linear_to_ssa_ref(path, self.n), **kw,
            )
        if how == "prefix" and len(path) >= 2:
            cut = 1 + init.get("cut", 0) % (len(path) - 1)
            self.count("init:prefix")
            return ctg.ContractionTree.from_path(
                self.inputs, self.output, self.sizes,
                path=path[:cut], autocomplete=True, optimize="greedy", **kw,
            )
        self.count("init:path" + ("+tracked" if any(tr[1:]) else ""))
        return ctg.ContractionTree.from_path(
            self.inputs, self.output, self.sizes, path=path, **kw
        )

    def _pool(self, op, name):
        pool = pools.make_pool(op.get("pool"))
        if pool is not False:
            self.count(f"pool:{op['pool']}:{name}")
        return pool

    def _target_size(self, tree, f):
        if f < 0:
            # a loose target: whatever is sliced may be relaxed again
            return 2**40
        return max(1, tree.max_size() // f)

    def apply(self, op, what):
        """Returns status: ok | refused | raised | skipped."""
        name = op["op"]
        tree = self.tree
        inplace = op.get("inplace", True)

        def call(fn, *a, **kw):
            ok, res = guarded(fn, *a, **kw)
            if ok:
                return "ok", res
            if any(r in res for r in REFUSALS):
                return "refused", res
            self.count(f"raised:{name}:{res.split(':')[0]}")
            self.last_raise = res
            return "raised", res

        def finish(status, res):
            if status == "ok" and res is not None:
                if not inplace and res is tree:
                    self.viol.append(f"{what}: inplace=False returned the same object")
                self.tree = res
            return status

        if name == "reconf":
            fn = tree.subtree_reconfigure_ if inplace else tree.subtree_reconfigure
            return finish(*call(fn, **op["kw"]))
        if name == "reconf_forest":
            fn = (
                tree.subtree_reconfigure_forest_
                if inplace
                else tree.subtree_reconfigure_forest
            )
            pool = pools.make_pool(op.get("pool"))
            if pool is not False:
                self.count(f"pool:{op['pool']}:{name}")
            return finish(*call(fn, parallel=pool, **op["kw"]))
        if name == "anneal":
            kw = dict(op["kw"])
            if op["tsf"]:
                kw["target_size"] = self._target_size(tree, op["tsf"])
            fn = tree.simulated_anneal_ if inplace else tree.simulated_anneal
            return finish(*call(fn, **kw))
        if name == "temper":
            kw = dict(op["kw"])
            if op["tsf"]:
                kw["target_size"] = self._target_size(tree, op["tsf"])
            fn = tree.parallel_temper_ if inplace else tree.parallel_temper
            pool = pools.make_pool(op.get("pool"))
            if pool is not False:
                self.count(f"pool:{op['pool']}:{name}")
            return finish(*call(fn, parallel=pool, **kw))
        if name == "remove":
            avail = [ix for ix in self.labels if ix not in tree.sliced_inds]
            if not avail:
                return "skipped"
            # optionally restrict to a kind of label (when there is one)
            where = op.get("where", "any")
            if where == "output":
                sub = [ix for ix in avail if ix in self.output]
            elif where == "inner":
                sub = [ix for ix in avail if ix not in self.output]
            elif where == "multi":
                sub = [ix for ix in avail if sum(ix in t for t in self.inputs) >= 2]
            else:
                sub = avail
            avail = sub or avail
            ix = avail[op["k"] % len(avail)]
            project = op["project"]
            if project is not None:
                project = project % self.sizes[ix]
            fn = tree.remove_ind_ if inplace else tree.remove_ind
            status, res = call(fn, ix, project=project)
            status = finish(status, res)
            if status == "ok" and project is not None:
                self.sync_proj(self.tree, asked=(ix, project))
            return status
        if name == "restore":
            cur = list(tree.sliced_inds)
            if not cur:
                return "skipped"
            ix = cur[op["k"] % len(cur)]
            fn = tree.restore_ind_ if inplace else tree.restore_ind
            return finish(*call(fn, ix))
        if name == "unslice_rand":
            if not tree.sliced_inds:
                return "skipped"
            fn = tree.unslice_rand_ if inplace else tree.unslice_rand
            return finish(*call(fn, seed=op["seed"]))
        if name == "unslice_all":
            fn = tree.unslice_all_ if inplace else tree.unslice_all
            return finish(*call(fn))
        if name == "slice":
            kw = dict(op["kw"])
            if op["target"] == "size":
                kw["target_size"] = self._target_size(tree, op["tv"])
            elif op["target"] == "slices":
                kw["target_slices"] = op["tv"]
            else:
                kw["target_overhead"] = float(op["tv"])
            fn = tree.slice_ if inplace else tree.slice
            return finish(*call(fn, **kw))
        if name == "slice_reconf":
            kw = dict(op["kw"])
            ro = {"subtree_size": 4, "maxiter": 2}
            if op["forested"]:
                ro = {
                    "forested": True, "num_trees": 2, "num_restarts": 1,
                    "subtree_maxiter": 2, "subtree_size": 4, "parallel": False,
                }
            fn = tree.slice_and_reconfigure_ if inplace else tree.slice_and_reconfigure
            return finish(
                *call(fn, self._target_size(tree, op["tv"]), reconf_opts=ro, **kw)
            )
        if name == "slice_reconf_forest":
            kw = dict(op["kw"])
            fn = (
                tree.slice_and_reconfigure_forest_
                if inplace
                else tree.slice_and_reconfigure_forest
            )
            return finish(
                *call(
                    fn,
                    self._target_size(tree, op["tv"]),
                    parallel=self._pool(op, name),
                    reconf_opts={"subtree_size": 4, "maxiter": 2},
                    **kw,
                )
            )
        if name == "sort":
            return call(tree.sort_contraction_indices, **op["kw"])[0]
        if name == "reset_inds":
            return call(tree.reset_contraction_indices)[0]
        if name == "copy":
            status, res = call(tree.copy)
            if status == "ok":
                if op["keep"]:
                    ok, snap0 = guarded(self.snapshot, tree.copy())
                    self.kept.append((tree, dict(self.proj), snap0 if ok else None))
                    if not ok:
                        self.kept.pop()
                self.tree = res
            return status
        if name == "contract":
            # an observation that is part of the history (perturbs caches)
            if self.oracle == "value":
                self.check_value(tree, what, op["opts"])
            else:
                ok, res = guarded(
                    tree.contract,
                    self.arrays,
                    prefer_einsum=op["opts"]["prefer_einsum"],
                )
            return "ok"
        if name == "query":
            which = op["which"]
            if which == "print_contractions":
                buf = io.StringIO()
                with contextlib.redirect_stdout(buf):
                    ok, res = guarded(tree.print_contractions)
            elif which == "combo_cost":
                ok, res = guarded(tree.combo_cost)
            elif which == "describe":
                ok, res = guarded(tree.describe, "full")
            elif which == "contract_stats_force":
                ok, res = guarded(tree.contract_stats, force=True)
            elif which == "repr":
                ok, res = guarded(repr, tree)
            else:
                ok, res = guarded(getattr(tree, which))
            if not ok:
                self.viol.append(f"{what}: {which}() raised {res}")
            return "ok"
        if name == "slice_unslice":
            # C04 (iii): slice k labels then unslice them in a permuted order
            # must restore every figure exactly
            avail = [ix for ix in self.labels if ix not in tree.sliced_inds]
            chosen = []
            for k in op["ks"]:
                if avail:
                    chosen.append(avail.pop(k % len(avail)))
            if not chosen:
                return "skipped"
            before = None
            if self.oracle == "cost":
                ok, before = guarded(self.snapshot, tree.copy())
                if not ok:
                    before = None
            for ix in chosen:
                status, res = call(tree.remove_ind_, ix)
                if status != "ok":
                    return status
            import itertools

            perms = list(itertools.permutations(chosen))
            order = perms[op["perm"] % len(perms)]
            for ix in order:
                status, res = call(tree.restore_ind_, ix)
                if status != "ok":
                    return status
            if before is not None:
                ok, after = guarded(self.snapshot, tree.copy())
                if not ok:
                    self.viol.append(f"{what}: query raised {after}")
                else:
                    for d in self.diff_snap(before, after)[:2]:
                        self.viol.append(
                            f"{what}: slicing {chosen} then unslicing {list(order)} "
                            f"did not restore the figures: {d}"
                        )
            return "ok"
        raise ValueError(name)


def _fmt(t):
    legs, inv, size, flops = t
    return f"({sorted(legs)}, {None if inv is None else sorted(inv)}, {size}, {flops})"


def run_history(spec, oracle):
    m = Machine(spec, oracle)
    log = m.run() or []
    names = [n for n, s in log if s == "ok"]
    classes = sorted(gen.net_classes(spec["net"]))
    classes += sorted(m.counts)
    n_struct = sum(1 for n in names if n in STRUCT_OPS)
    has_obs_before = any(
        (op["op"] in ("contract", "query") or op.get("obs") == "real")
        for op in spec["ops"][:-1]
    )
    classes.append("observed_before_last_op" if has_obs_before else "unobserved_until_end")
    if oracle == "value":
        nontrivial = n_struct >= 2
    else:
        nontrivial = any(n in RECONF_OPS for n in names) and any(
            n in SLICE_OPS for n in names
        )
    stats = {"ops_run": len(log), "ops_ok": len(names)}
    return Outcome(m.viol, nontrivial, classes, stats)
