"""One shard of one property check.  Invoked by vlib.runner as a subprocess:

    python -m vlib.shard <ID> <tier> <seed> <shard> <nshards> <outfile>

Exit 0 always when a result file was written (violations are *in* the file);
exit 2 on harness trouble.
"""

import importlib
import os
import sys
import traceback
import warnings


def main(argv):
    prop_id, tier, seed, shard, nshards, outfile = argv
    seed, shard, nshards = int(seed), int(shard), int(nshards)
    warnings.filterwarnings("ignore")
    # an address space ceiling per shard: a defect that makes the code under test
    # ask for an absurd array then shows as a MemoryError inside the case (which
    # the property's check judges) instead of the kernel killing the shard
    try:
        import resource

        lim = int(os.environ.get("VERIF_SHARD_AS_GB", "12")) << 30
        resource.setrlimit(resource.RLIMIT_AS, (lim, lim))
    except Exception:  # noqa - not available: carry on without
        pass
    from . import harness

    try:
        harness.assert_repo_import()
        mod = importlib.import_module(f"vlib.props.{prop_id.lower()}")
        state = harness.ShardState(prop_id)
        if hasattr(mod, "shard_main"):
            mod.shard_main(tier, seed, shard, nshards, state)
        else:
            harness.run_hypothesis_shard(mod, tier, seed, shard, nshards, state)
        harness.write_json(outfile, state.result())
        return 0
    except harness.HarnessError as e:
        sys.stderr.write(f"HARNESS-ERROR shard={shard}: {e}\n")
        return 2
    except BaseException:  # noqa
        sys.stderr.write(f"HARNESS-ERROR shard={shard}:\n{traceback.format_exc()}\n")
        return 2


if __name__ == "__main__":
    code = main(sys.argv[1:])
    sys.stdout.flush()
    sys.stderr.flush()
    os._exit(code)
