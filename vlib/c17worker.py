"""Worker for C17: run a batch of seeded-API cases in THIS interpreter.

    python -m vlib.c17worker <batch.json> <variant>

Every case is run twice; before the first run the global ``random`` / numpy
generators are seeded with a value that depends on the variant, between the
two runs unrelated randomness-consuming calls are made.  Prints one JSON list
of [digest1, digest2] per case.  A digest is plain data that must not depend
on the interpreter's hash seed.
"""

import json
import os
import random
import sys
import warnings


class EagerPool:
    """Runs each task when it is submitted and hands back a genuine, already
    completed ``concurrent.futures.Future`` (so that code written against the
    futures API - ``as_completed``, ``wait`` - works on it)."""

    _max_workers = 2

    def submit(self, fn, *args, **kwargs):
        from concurrent.futures import Future

        f = Future()
        try:
            f.set_result(fn(*args, **kwargs))
        except Exception as e:  # noqa
            f.set_exception(e)
        return f


def make_pool(kind):
    return EagerPool() if kind == "eager" else False


def build_tree(ctg, case):
    net = case["net"]
    inputs = [tuple(t) for t in net["inputs"]]
    tree = ctg.ContractionTree.from_path(
        inputs, tuple(net["output"]), dict(net["sizes"]),
        path=[tuple(p) for p in case["path"]],
    )
    for ix in case.get("pre_slice", []):
        if ix in tree.size_dict and ix not in tree.sliced_inds:
            tree.remove_ind_(ix)
    return tree


def tree_digest(tree):
    return {
        "path": [list(p) for p in tree.get_path()],
        "sliced": list(tree.sliced_inds),
    }


def run_case(ctg, case):
    if case.get("seed_np"):
        # the same integer seed given as a python int and as a numpy integer
        import numpy as np

        plain = dict(case, seed_np=False)
        def attempt(c):
            try:
                return run_case(ctg, c)
            except Exception as e:  # noqa
                import traceback

                if not any("/cotengra/" in fr.filename for fr in traceback.extract_tb(e.__traceback__)):
                    raise
                return {"raised": f"{type(e).__name__}: {str(e)[:80]}"}

        d_int = attempt(plain)
        d_np = attempt(dict(plain, seed=np.int64(case["seed"])))
        return {"int_seed": d_int, "numpy_seed": d_np}
    if case.get("same_object") and case["api"] in SAME_OBJECT_APIS:
        # the same seeded, non-inplace call twice on ONE tree object (which a
        # first, differently seeded, reconfiguration has already been through):
        # the answer must not depend on what was called before
        tree = build_tree(ctg, case)
        if case.get("pre_reconf") == "like_call":
            a_ = case.get("args", {})
            # (not in place: the tree under test is itself the result of a
            # reconfiguration, as in ``tree = tree.subtree_reconfigure(...)``)
            if case["api"] == "reconf":
                tree = tree.subtree_reconfigure(
                    subtree_size=a_["size"], maxiter=a_["maxiter"], seed=12345,
                    select=a_["select"], subtree_search=a_["search"],
                )
            else:
                tree = tree.subtree_reconfigure(subtree_size=a_.get("size", 3), maxiter=4, seed=12345)
        elif case.get("pre_reconf"):
            tree.subtree_reconfigure_(subtree_size=3, maxiter=2, seed=12345)
        # (the equal tree is made BEFORE the first call: what is compared are
        # two equal trees that have been through the same history)
        other = tree
        if case.get("clone") == "pickle":
            # ... or on an equal tree: a pickled clone (what a process pool gets)
            import pickle

            other = pickle.loads(pickle.dumps(tree))
        elif case.get("clone") == "copy":
            other = tree.copy()
        first = run_case_inner(ctg, case, tree)
        second = run_case_inner(ctg, case, other)
        return {"first": first, "second": second}
    return run_case_inner(ctg, case, None)


SAME_OBJECT_APIS = ("slice", "reconf", "reconf_forest", "anneal", "temper", "unslice_rand", "get_subtree")


def run_case_inner(ctg, case, shared_tree):
    api = case["api"]
    s = case["seed"]
    net = case.get("net")
    if net is not None:
        inputs = [tuple(t) for t in net["inputs"]]
        output = tuple(net["output"])
        sizes = dict(net["sizes"])
    pb = ctg.pathfinders.path_basic
    a = case.get("args", {})

    if api == "random_greedy_opt":
        opt = pb.RandomGreedyOptimizer(seed=s, max_repeats=a["max_repeats"], parallel=False)
        path = opt(inputs, output, sizes)
        return {"path": [list(p) for p in path], "flops": round(opt.best_flops, 9)}
    if api == "random_greedy_fn":
        path, flops = pb.optimize_random_greedy_track_flops(
            inputs, output, sizes, ntrials=a["max_repeats"], seed=s
        )
        return {"path": [list(p) for p in path], "flops": round(flops, 9)}
    if api == "random_opt":
        opt = ctg.pathfinders.path_random.RandomOptimizer(seed=s)
        return [list(p) for p in opt(inputs, output, sizes)]
    if api in ("labels_divide", "labels_agglom", "kahypar_divide", "kahypar_agglom"):
        if api.startswith("labels"):
            from cotengra.pathfinders.path_labels import labels_to_tree as b
        else:
            from cotengra.pathfinders.path_kahypar import kahypar_to_tree as b
        if api.endswith("divide"):
            t = b.build_divide(inputs, output, sizes, seed=s, cutoff=a["cutoff"], parts=a["parts"], random_strength=a["rs"])
        else:
            t = b.build_agglom(inputs, output, sizes, seed=s, groupsize=a["groupsize"], random_strength=a["rs"])
        return tree_digest(t)
    if api == "slice":
        tree = shared_tree if shared_tree is not None else build_tree(ctg, case)
        tsz = max(1, tree.max_size() // a["div"])
        t2 = tree.slice(target_size=tsz, seed=s, temperature=a["temp"], max_repeats=a["reps"], allow_outer=a.get("allow_outer", True))
        return tree_digest(t2)
    if api == "slicefinder":
        tree = shared_tree if shared_tree is not None else build_tree(ctg, case)
        tsz = max(1, tree.max_size() // a["div"])
        sf = ctg.slicer.SliceFinder(tree, target_size=tsz, seed=s, temperature=a["temp"], allow_outer=a.get("allow_outer", True))
        ix, cost = sf.search(a["reps"])
        return {"ix": sorted(ix), "size": cost.size, "flops": cost.total_flops}
    if api == "reconf":
        tree = shared_tree if shared_tree is not None else build_tree(ctg, case)
        t2 = tree.subtree_reconfigure(
            subtree_size=a["size"], subtree_search=a["search"], select=a["select"],
            maxiter=a["maxiter"], seed=s,
        )
        return tree_digest(t2)
    if api == "reconf_forest":
        tree = shared_tree if shared_tree is not None else build_tree(ctg, case)
        t2 = tree.subtree_reconfigure_forest(
            num_trees=a["num_trees"], num_restarts=a["restarts"], subtree_maxiter=a["maxiter"],
            subtree_size=a["size"], parallel=make_pool(a.get("pool")), seed=s,
        )
        return tree_digest(t2)
    if api == "anneal":
        tree = shared_tree if shared_tree is not None else build_tree(ctg, case)
        kw = {}
        if a["div"]:
            kw["target_size"] = max(1, tree.max_size() // a["div"])
            kw["slice_mode"] = a["slice_mode"]
        t2 = tree.simulated_anneal(tsteps=a["tsteps"], numiter=a["numiter"], seed=s, **kw)
        return tree_digest(t2)
    if api == "temper":
        tree = shared_tree if shared_tree is not None else build_tree(ctg, case)
        kw = {}
        if a["div"]:
            kw["target_size"] = max(1, tree.max_size() // a["div"])
        t2 = tree.parallel_temper(
            tsteps=a["tsteps"], numiter=a["numiter"], num_trees=a["num_trees"],
            parallel=make_pool(a.get("pool")), seed=s, **kw,
        )
        return tree_digest(t2)
    if api == "unslice_rand":
        tree = shared_tree if shared_tree is not None else build_tree(ctg, case)
        if not tree.sliced_inds:
            return "nothing sliced"
        return tree_digest(tree.unslice_rand(seed=s))
    if api == "get_subtree":
        tree = shared_tree if shared_tree is not None else build_tree(ctg, case)
        leaves, branches = tree.get_subtree(tree.root, a["size"], search="random", seed=s)
        return [sorted(sorted(x) for x in leaves), sorted(sorted(x) for x in branches)]
    if api == "greedy_compressed":
        from cotengra.pathfinders.path_compressed_greedy import GreedyCompressed

        g = GreedyCompressed(chi=a["chi"], temperature=a["temp"], seed=s)
        return [list(p) for p in g.get_ssa_path(inputs, output, sizes)]
    if api == "greedy_span":
        from cotengra.pathfinders.path_compressed_greedy import GreedySpan

        g = GreedySpan(temperature=a["temp"], seed=s)
        return [list(p) for p in g.get_ssa_path(inputs, output, sizes)]
    if api == "cp_greedy":
        cp = pb.ContractionProcessor(inputs, output, sizes)
        cp.optimize_greedy(temperature=a["temp"], seed=s)
        return [list(p) for p in cp.ssa_path]
    if api in ("windowed", "compressed_anneal"):
        path = ctg.array_contract_path(inputs, output, sizes, optimize="greedy")
        t = ctg.ContractionTreeCompressed.from_path(inputs, output, sizes, path=path)
        if api == "windowed":
            t2 = t.windowed_reconfigure(
                window_size=a["window"], max_iterations=a["iters"], score_temperature=a["temp"], seed=s
            )
        else:
            t2 = t.simulated_anneal(tsteps=a["tsteps"], numiter=a["numiter"], seed=s)
        return {"path": [list(p) for p in t2.get_path()], "ssa": [list(p) for p in t2.get_ssa_path()]}
    if api == "jitter_dict":
        return sorted((k, round(v, 12)) for k, v in ctg.core.jitter_dict(sizes, a["strength"], seed=s).items())
    if api == "labels_partition":
        from cotengra.pathfinders.path_labels import labels_partition

        return [int(x) for x in labels_partition(inputs, output, sizes, seed=s)]
    if api == "kahypar_partition":
        from cotengra.pathfinders.path_kahypar import kahypar_subgraph_find_membership

        return [int(x) for x in kahypar_subgraph_find_membership(inputs, output, sizes, parts=a["parts"], seed=s)]
    if api == "arrays_from_eq":
        arrs = ctg.utils.make_arrays_from_eq(a["eq"], seed=s)
        return [[list(arr.shape)] + [round(float(x), 12) for x in arr.ravel()[:4]] for arr in arrs]
    if api == "nx_equation":
        import networkx as nx

        G = nx.random_regular_graph(3, a["n"], seed=a["gseed"])
        c = ctg.utils.networkx_graph_to_equation(G, d_min=2, d_max=5, seed=s)
        return [[list(t) for t in c[0]], list(c[1]), sorted(c[3].items())]
    # generators
    u = ctg.utils
    if api == "rand_equation":
        c = u.rand_equation(a["n"], a["reg"], n_out=a["n_out"], n_hyper_in=a["hin"], n_hyper_out=a["hout"], seed=s)
        return [[list(t) for t in c.inputs], list(c.output), sorted(c.size_dict.items())]
    if api == "tree_equation":
        c = u.tree_equation(a["n"], n_outer=a["n_out"], seed=s)
        return [[list(t) for t in c.inputs], list(c.output), sorted(c.size_dict.items())]
    if api == "randreg_equation":
        c = u.randreg_equation(a["n"], a["reg"], seed=s)
        return [[list(t) for t in c.inputs], list(c.output), sorted(c.size_dict.items())]
    if api == "perverse_equation":
        c = u.perverse_equation(a["n"], num_indices=a["ninds"], n_outer=a["n_out"], seed=s)
        return [[list(t) for t in c.inputs], list(c.output), sorted(c.size_dict.items())]
    if api == "lattice_equation":
        c = u.lattice_equation(a["dims"], cyclic=a["cyclic"], d_min=2, d_max=4, seed=s)
        return [[list(t) for t in c.inputs], list(c.output), sorted(c.size_dict.items())]
    if api == "rand_tree":
        t = u.rand_tree(a["n"], a["reg"], n_out=a["n_out"], seed=s)
        return [tree_digest(t), [list(x) for x in t.inputs], sorted(t.size_dict.items())]
    if api == "rand_size_dict":
        d = u.make_rand_size_dict_from_inputs(inputs, seed=s)
        return sorted(d.items())
    if api == "rand_arrays":
        arrs = u.make_arrays_from_inputs(inputs, sizes, seed=s)
        return [[round(float(x), 12) for x in arr.ravel()[:6]] for arr in arrs]
    raise ValueError(api)


def main(argv):
    batch_file, variant = argv[0], int(argv[1])
    warnings.filterwarnings("ignore")
    import numpy as np

    import cotengra as ctg

    root = os.path.realpath(os.environ.get("VERIF_REPO", "/repo"))
    if not os.path.realpath(ctg.__file__).startswith(root + os.sep):
        print(json.dumps({"harness_error": f"cotengra from {ctg.__file__}"}))
        return 2
    with open(batch_file) as f:
        cases = json.load(f)
    # "regardless of what was called before": every interpreter goes through the
    # batch in another order (as given / reversed / rotated by half), so a case
    # meets different predecessors in each; results are reported by case number
    n_ = len(cases)
    order = list(range(n_))
    if variant % 3 == 1:
        order.reverse()
    elif variant % 3 == 2:
        order = order[n_ // 2:] + order[: n_ // 2]
    out = [None] * n_
    for i in order:
        case = cases[i]
        digs = []
        for rep in range(2):
            # perturb the global generators differently in every interpreter
            random.seed(variant * 7919 + i * 31 + rep)
            np.random.seed((variant * 104729 + i * 17 + rep) % 2**32)
            for _ in range(variant + rep):
                random.random()
            if rep == 1:
                # unrelated calls in between
                ctg.utils.rand_equation(5, 3, seed=None)
                ctg.pathfinders.path_random.RandomOptimizer()([("a",), ("a",), ()], (), {"a": 2})
            try:
                d = run_case(ctg, case)
            except Exception as e:  # identical failures are identical results
                import traceback

                tb = traceback.extract_tb(e.__traceback__)
                if any("/cotengra/" in fr.filename for fr in tb):
                    d = {"raised": f"{type(e).__name__}: {str(e)[:80]}"}
                else:
                    # raised by this worker's own code (a wrong call, a typo):
                    # harness trouble, never an 'identical result'
                    d = {"harness_raised": f"{case['api']}: {type(e).__name__}: {str(e)[:200]}"}
            digs.append(d)
        out[i] = digs
    print(json.dumps(out, sort_keys=True, default=str))
    return 0


if __name__ == "__main__":
    code = main(sys.argv[1:])
    sys.stdout.flush()
    os._exit(code)
