"""Worker for C17: run a batch of seeded-API cases in THIS interpreter.

    python -m vlib.c17worker <batch.json> <variant>

Every case is run twice; before the first run the global ``random`` / numpy
generators are seeded with a value that depends on the variant, between the
two runs unrelated randomness-consuming calls are made.  Prints one JSON list
of [digest1, digest2] per case.  A digest is plain data that must not depend
on the interpreter's hash seed.
"""

import json
import os
import random
import sys
import warnings


def build_tree(ctg, case):
    net = case["net"]
    inputs = [tuple(t) for t in net["inputs"]]
    tree = ctg.ContractionTree.from_path(
        inputs, tuple(net["output"]), dict(net["sizes"]),
        path=[tuple(p) for p in case["path"]],
    )
    for ix in case.get("pre_slice", []):
        if ix in tree.size_dict and ix not in tree.sliced_inds:
            tree.remove_ind_(ix)
    return tree


def tree_digest(tree):
    return {
        "path": [list(p) for p in tree.get_path()],
        "sliced": list(tree.sliced_inds),
    }


def run_case(ctg, case):
    api = case["api"]
    s = case["seed"]
    net = case.get("net")
    if net is not None:
        inputs = [tuple(t) for t in net["inputs"]]
        output = tuple(net["output"])
        sizes = dict(net["sizes"])
    pb = ctg.pathfinders.path_basic
    a = case.get("args", {})

    if api == "random_greedy_opt":
        opt = pb.RandomGreedyOptimizer(seed=s, max_repeats=a["max_repeats"], parallel=False)
        path = opt(inputs, output, sizes)
        return {"path": [list(p) for p in path], "flops": round(opt.best_flops, 9)}
    if api == "random_greedy_fn":
        path, flops = pb.optimize_random_greedy_track_flops(
            inputs, output, sizes, ntrials=a["max_repeats"], seed=s
        )
        return {"path": [list(p) for p in path], "flops": round(flops, 9)}
    if api == "random_opt":
        opt = ctg.pathfinders.path_random.RandomOptimizer(seed=s)
        return [list(p) for p in opt(inputs, output, sizes)]
    if api in ("labels_divide", "labels_agglom", "kahypar_divide", "kahypar_agglom"):
        if api.startswith("labels"):
            from cotengra.pathfinders.path_labels import labels_to_tree as b
        else:
            from cotengra.pathfinders.path_kahypar import kahypar_to_tree as b
        if api.endswith("divide"):
            t = b.build_divide(inputs, output, sizes, seed=s, cutoff=a["cutoff"], parts=a["parts"], random_strength=a["rs"])
        else:
            t = b.build_agglom(inputs, output, sizes, seed=s, groupsize=a["groupsize"], random_strength=a["rs"])
        return tree_digest(t)
    if api == "slice":
        tree = build_tree(ctg, case)
        tsz = max(1, tree.max_size() // a["div"])
        t2 = tree.slice(target_size=tsz, seed=s, temperature=a["temp"], max_repeats=a["reps"])
        return tree_digest(t2)
    if api == "slicefinder":
        tree = build_tree(ctg, case)
        tsz = max(1, tree.max_size() // a["div"])
        sf = ctg.slicer.SliceFinder(tree, target_size=tsz, seed=s, temperature=a["temp"])
        ix, cost = sf.search(a["reps"])
        return {"ix": sorted(ix), "size": cost.size, "flops": cost.total_flops}
    if api == "reconf":
        tree = build_tree(ctg, case)
        t2 = tree.subtree_reconfigure(
            subtree_size=a["size"], subtree_search=a["search"], select=a["select"],
            maxiter=a["maxiter"], seed=s,
        )
        return tree_digest(t2)
    if api == "reconf_forest":
        tree = build_tree(ctg, case)
        t2 = tree.subtree_reconfigure_forest(
            num_trees=a["num_trees"], num_restarts=a["restarts"], subtree_maxiter=a["maxiter"],
            subtree_size=a["size"], parallel=False, seed=s,
        )
        return tree_digest(t2)
    if api == "anneal":
        tree = build_tree(ctg, case)
        kw = {}
        if a["div"]:
            kw["target_size"] = max(1, tree.max_size() // a["div"])
            kw["slice_mode"] = a["slice_mode"]
        t2 = tree.simulated_anneal(tsteps=a["tsteps"], numiter=a["numiter"], seed=s, **kw)
        return tree_digest(t2)
    if api == "temper":
        tree = build_tree(ctg, case)
        kw = {}
        if a["div"]:
            kw["target_size"] = max(1, tree.max_size() // a["div"])
        t2 = tree.parallel_temper(
            tsteps=a["tsteps"], numiter=a["numiter"], num_trees=a["num_trees"],
            parallel=False, seed=s, **kw,
        )
        return tree_digest(t2)
    if api == "unslice_rand":
        tree = build_tree(ctg, case)
        if not tree.sliced_inds:
            return "nothing sliced"
        return tree_digest(tree.unslice_rand(seed=s))
    if api == "get_subtree":
        tree = build_tree(ctg, case)
        leaves, branches = tree.get_subtree(tree.root, a["size"], search="random", seed=s)
        return [sorted(sorted(x) for x in leaves), sorted(sorted(x) for x in branches)]
    # generators
    u = ctg.utils
    if api == "rand_equation":
        c = u.rand_equation(a["n"], a["reg"], n_out=a["n_out"], n_hyper_in=a["hin"], n_hyper_out=a["hout"], seed=s)
        return [[list(t) for t in c.inputs], list(c.output), sorted(c.size_dict.items())]
    if api == "tree_equation":
        c = u.tree_equation(a["n"], n_outer=a["n_out"], seed=s)
        return [[list(t) for t in c.inputs], list(c.output), sorted(c.size_dict.items())]
    if api == "randreg_equation":
        c = u.randreg_equation(a["n"], a["reg"], seed=s)
        return [[list(t) for t in c.inputs], list(c.output), sorted(c.size_dict.items())]
    if api == "perverse_equation":
        c = u.perverse_equation(a["n"], num_indices=a["ninds"], n_outer=a["n_out"], seed=s)
        return [[list(t) for t in c.inputs], list(c.output), sorted(c.size_dict.items())]
    if api == "lattice_equation":
        c = u.lattice_equation(a["dims"], cyclic=a["cyclic"], d_min=2, d_max=4, seed=s)
        return [[list(t) for t in c.inputs], list(c.output), sorted(c.size_dict.items())]
    if api == "rand_tree":
        t = u.rand_tree(a["n"], a["reg"], n_out=a["n_out"], seed=s)
        return [tree_digest(t), [list(x) for x in t.inputs], sorted(t.size_dict.items())]
    if api == "rand_size_dict":
        d = u.make_rand_size_dict_from_inputs(inputs, seed=s)
        return sorted(d.items())
    if api == "rand_arrays":
        arrs = u.make_arrays_from_inputs(inputs, sizes, seed=s)
        return [[round(float(x), 12) for x in arr.ravel()[:6]] for arr in arrs]
    raise ValueError(api)


def main(argv):
    batch_file, variant = argv[0], int(argv[1])
    warnings.filterwarnings("ignore")
    import numpy as np

    import cotengra as ctg

    root = os.path.realpath(os.environ.get("VERIF_REPO", "/repo"))
    if not os.path.realpath(ctg.__file__).startswith(root + os.sep):
        print(json.dumps({"harness_error": f"cotengra from {ctg.__file__}"}))
        return 2
    with open(batch_file) as f:
        cases = json.load(f)
    out = []
    for i, case in enumerate(cases):
        digs = []
        for rep in range(2):
            # perturb the global generators differently in every interpreter
            random.seed(variant * 7919 + i * 31 + rep)
            np.random.seed((variant * 104729 + i * 17 + rep) % 2**32)
            for _ in range(variant + rep):
                random.random()
            if rep == 1:
                # unrelated calls in between
                ctg.utils.rand_equation(5, 3, seed=None)
                ctg.pathfinders.path_random.RandomOptimizer()([("a",), ("a",), ()], (), {"a": 2})
            try:
                d = run_case(ctg, case)
            except Exception as e:  # identical failures are identical results
                d = {"raised": f"{type(e).__name__}: {str(e)[:80]}"}
            digs.append(d)
        out.append(digs)
    print(json.dumps(out, sort_keys=True, default=str))
    return 0


if __name__ == "__main__":
    code = main(sys.argv[1:])
    sys.stdout.flush()
    os._exit(code)
