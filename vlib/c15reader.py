"""A 'later process' for C15 in a really fresh interpreter:

    python -m vlib.c15reader '<json: cachedir, split, seed, q, cache_only>'
"""
import json
import os
import sys
import warnings


def main(arg):
    warnings.filterwarnings("ignore")
    a = json.loads(arg)
    from vlib.props import c15

    c15._register()
    q = (tuple(tuple(t) for t in a["q"][0]), tuple(a["q"][1]), dict(a["q"][2]))
    try:
        opt = c15.make_opt(a["cachedir"], a["split"], a["seed"], cache_only=a["cache_only"])
        c15._calls["n"] = 0
        tree = opt.search(*q)
        res = {
            "path": [list(p) for p in tree.get_path()],
            "complete": bool(tree.is_complete()),
            "N": tree.N,
            "inputs_ok": tuple(map(tuple, tree.inputs)) == q[0] and tuple(tree.output) == q[1],
            "trials": c15._calls["n"],
        }
    except Exception as e:  # noqa
        res = {"raised": f"{type(e).__name__}: {str(e)[:120]}"}
    print(json.dumps(res))


if __name__ == "__main__":
    main(sys.argv[1])
    sys.stdout.flush()
    os._exit(0)
