"""Shared Hypothesis strategies: networks, trees, options (DESIGN.md 0.6).

All strategies produce plain JSON-able data ("specs").
"""

import math

from hypothesis import strategies as st

ASCII = "abcdefghijklmnopqrstuvwxyzABCDEFGHIJKLMNOPQRSTUVWXYZ"
# symbols beyond the 52 letters, as cotengra.utils.get_symbol would make them
WIDE = "".join(chr(192 + k) for k in range(0, 120) if chr(192 + k).isprintable())


def _alphabet(kind, k):
    if kind == "ascii":
        return list(ASCII[:k])
    if kind == "shuffled":
        # letters in a non sorted order: catches reliance on sorted labels
        base = "zyxwvutsrqponmlkjihgfedcbaZYXWVUTSRQPONMLKJIHGFEDCBA"
        return list(base[:k])
    if kind == "wide":
        # mix of ascii and symbols >= chr(192)
        # early lower-case letters interleaved with symbols >= chr(192): the
        # re-mapping of symbols into [a-zA-Z] for a backend einsum must not
        # collide with letters already in use
        return [WIDE[i // 2] if i % 2 else ASCII[i // 2] for i in range(k)]
    raise ValueError(kind)


def clamp_sizes(labels, sizes, limit):
    """Deterministically reduce sizes until prod <= limit."""
    sizes = dict(sizes)
    while math.prod(sizes[ix] for ix in labels) > limit:
        big = max(labels, key=lambda ix: (sizes[ix], ix))
        sizes[big] -= 1
    return sizes


@st.composite
def networks(
    draw,
    min_n=2,
    max_n=8,
    max_rank=4,
    max_dim=4,
    allow_repeat=True,
    allow_hyper=True,
    allow_single=True,
    allow_scalar=True,
    allow_size1=True,
    alphabets=("ascii", "shuffled", "wide"),
    volume_limit=2**20,
    output_prob=None,
    connected=False,
):
    """Draw a tensor network by construction.

    Label-centric: each label draws the multiset of tensors carrying it, so
    hyper labels, repeated labels, single-tensor labels and disconnected
    parts are all reachable without rejection.
    """
    n = draw(st.integers(min_n, max_n))
    nlab = draw(st.integers(0 if allow_scalar else 1, max(1, min(2 * n, 12))))
    if connected:
        # n - 1 spanning labels are needed before any other
        nlab = max(nlab, n - 1) + draw(st.integers(0, 3))
    kind = draw(st.sampled_from(alphabets))
    labels = _alphabet(kind, nlab) if nlab <= 40 else [chr(0x4E00 + i) for i in range(nlab)]
    terms = [[] for _ in range(n)]
    flags = set()
    if connected and n > 1 and nlab >= 1:
        pass
    for li, ix in enumerate(labels):
        mode = draw(st.integers(0, 9))
        if connected and li < n - 1:
            # spanning chain/tree edges first so the network is connected
            a = li + 1
            b = draw(st.integers(0, li))
            where = [a, b]
        elif mode <= 5 or not (allow_hyper or allow_single or allow_repeat):
            # ordinary bond: two distinct tensors
            if n >= 2:
                a = draw(st.integers(0, n - 1))
                b = draw(st.integers(0, n - 2))
                if b >= a:
                    b += 1
                where = [a, b]
            else:
                where = [0]
        elif mode == 6 and allow_single:
            where = [draw(st.integers(0, n - 1))]
            flags.add("single")
        elif mode == 7 and allow_repeat:
            a = draw(st.integers(0, n - 1))
            where = [a, a]
            if draw(st.booleans()):
                where.append(draw(st.integers(0, n - 1)))
            flags.add("repeat")
        elif allow_hyper and n >= 3:
            k = draw(st.integers(3, n))
            where = draw(
                st.lists(
                    st.integers(0, n - 1), min_size=k, max_size=k, unique=True
                )
            )
            flags.add("hyper")
            if len(where) == n:
                flags.add("on_all")
        else:
            a = draw(st.integers(0, n - 1))
            b = draw(st.integers(0, n - 1))
            where = [a, b]
            if a == b:
                if not allow_repeat:
                    where = [a]
                    if not allow_single:
                        where = [a, (a + 1) % n] if n > 1 else [a]
        for t in where:
            if len(terms[t]) < max_rank or connected:
                terms[t].append(ix)
    # shuffle the order of labels inside each tensor
    inputs = []
    for t in terms:
        if len(t) > 1:
            t = draw(st.permutations(t))
        inputs.append(list(t))
    used = list(dict.fromkeys(ix for t in inputs for ix in t))
    # output: ordered subset of used labels
    if output_prob is None:
        pout = draw(st.sampled_from([0.0, 0.2, 0.5]))
    else:
        pout = output_prob
    if pout > 0 and used:
        k = draw(st.integers(0, min(len(used), 4)))
        out = draw(
            st.lists(st.sampled_from(used), min_size=k, max_size=k, unique=True)
        )
    else:
        out = []
    lo = 1 if allow_size1 else 2
    sizes = {
        ix: draw(st.integers(lo, max_dim)) for ix in used
    }
    sizes = clamp_sizes(used, sizes, volume_limit)
    return {"inputs": inputs, "output": list(out), "sizes": sizes}


def net_classes(net):
    """Feature tags of a network (for the evidence distribution)."""
    inputs, output, sizes = net["inputs"], net["output"], net["sizes"]
    n = len(inputs)
    cls = set()
    cnt = {}
    for t in inputs:
        if len(set(t)) != len(t):
            cls.add("repeat")
        if not t:
            cls.add("scalar")
        for ix in set(t):
            cnt[ix] = cnt.get(ix, 0) + 1
    for ix, c in cnt.items():
        tot = c + (1 if ix in output else 0)
        if tot >= 3:
            cls.add("hyper")
        if c == n and n > 1:
            cls.add("on_all")
        if c == 1 and ix not in output:
            cls.add("single_summed")
        if c == 1 and ix in output:
            cls.add("single_output")
        if c >= 2 and ix in output:
            cls.add("batch_output")
        if sizes[ix] == 1:
            cls.add("size1")
    if any(ord(ix) > 127 for ix in cnt):
        cls.add("wide_labels")
    # connectivity
    parent = list(range(n))

    def find(a):
        while parent[a] != a:
            parent[a] = parent[parent[a]]
            a = parent[a]
        return a

    first = {}
    for i, t in enumerate(inputs):
        for ix in t:
            if ix in first:
                parent[find(i)] = find(first[ix])
            else:
                first[ix] = i
    if len({find(i) for i in range(n)}) > 1:
        cls.add("disconnected")
    if output:
        cls.add("has_output")
    if n >= 6:
        cls.add("n>=6")
    return cls


@st.composite
def linear_paths(draw, n):
    """A complete pairwise linear path over n tensors: n-1 steps, each picks
    two distinct live positions.  Every binary tree is reachable."""
    path = []
    live = n
    while live > 1:
        i = draw(st.integers(0, live - 1))
        j = draw(st.integers(0, live - 2))
        if j >= i:
            j += 1
        path.append([min(i, j), max(i, j)])
        live -= 1
    return path


@st.composite
def removed_lists(draw, net, max_k=3, max_prod=96, allow_project=True):
    """Ordered list of (label, project or None) to slice / project."""
    used = list(dict.fromkeys(ix for t in net["inputs"] for ix in t))
    if not used:
        return []
    k = draw(st.integers(0, min(max_k, len(used))))
    labs = draw(st.lists(st.sampled_from(used), min_size=k, max_size=k, unique=True))
    out = []
    prod = 1
    for ix in labs:
        d = net["sizes"][ix]
        if allow_project and draw(st.integers(0, 3)) == 0:
            out.append([ix, draw(st.integers(0, d - 1))])
        else:
            if prod * d > max_prod:
                continue
            prod *= d
            out.append([ix, None])
    return out
