"""Harness-owned executors (no processes, no threads, fully deterministic).

cotengra accepts any object with ``submit`` as ``parallel=``.  These emulate
the two protocols the library distinguishes (cotengra/parallel.py):

* ``PicklePool``   - an ordinary (non scatter) pool such as
  ``concurrent.futures.ProcessPoolExecutor``: every task's function, arguments
  and result cross a pickle boundary, the task runs when it is submitted.
* ``RayExecutor``  - a *scatter* pool (the class name is what
  ``cotengra.parallel._infer_backend`` keys on): ``scatter(data)`` returns a
  future, futures may be passed as (nested) task arguments and are resolved on
  the 'remote' side, results stay remote until ``.result()``.

Both run the task in-process at submit time, so a run is a pure function of
the spec, and both count what crossed the boundary.
"""

import pickle


class DoneFuture:
    def __init__(self, value=None, exc=None):
        self._value = value
        self._exc = exc

    def result(self, timeout=None):
        if self._exc is not None:
            raise self._exc
        return self._value

    def done(self):
        return True

    def cancel(self):
        return False


def _roundtrip(x):
    return pickle.loads(pickle.dumps(x, protocol=pickle.HIGHEST_PROTOCOL))


class PicklePool:
    def __init__(self, workers=2):
        self._max_workers = workers
        self.tasks = 0

    def submit(self, fn, *args, **kwargs):
        self.tasks += 1
        try:
            fn, args, kwargs = _roundtrip((fn, args, kwargs))
            return DoneFuture(_roundtrip(fn(*args, **kwargs)))
        except Exception as e:  # noqa - delivered through the future
            return DoneFuture(exc=e)

    def shutdown(self, *a, **k):
        pass


def _resolve(x):
    if isinstance(x, DoneFuture):
        return x.result()
    if isinstance(x, tuple):
        return tuple(_resolve(v) for v in x)
    if isinstance(x, list):
        return [_resolve(v) for v in x]
    if isinstance(x, dict):
        return {k: _resolve(v) for k, v in x.items()}
    return x


class RayExecutor:
    """Scatter pool (the name makes cotengra treat it as the 'ray' backend)."""

    def __init__(self, workers=2):
        self._max_workers = workers
        self.tasks = 0
        self.scattered = 0

    def scatter(self, data):
        self.scattered += 1
        return DoneFuture(_roundtrip(data))

    def submit(self, fn, *args, pure=False, remote_opts=None, **kwargs):
        self.tasks += 1
        try:
            args, kwargs = _resolve(args), _resolve(kwargs)
            fn, args, kwargs = _roundtrip((fn, args, kwargs))
            return DoneFuture(_roundtrip(fn(*args, **kwargs)))
        except Exception as e:  # noqa
            return DoneFuture(exc=e)

    def shutdown(self, *a, **k):
        pass


def make_pool(kind):
    if kind in (None, False, "none"):
        return False
    if kind == "pickle":
        return PicklePool()
    if kind == "scatter":
        return RayExecutor()
    raise ValueError(kind)
