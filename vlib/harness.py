"""Per-shard driver and shared helpers for all property checks."""

import hashlib
import json
import os
import sys
import time
import traceback


class Outcome:
    """Result of evaluating one case spec."""

    __slots__ = ("violations", "nontrivial", "classes", "stats", "__dict__")

    def __init__(self, violations=None, nontrivial=False, classes=(), stats=None):
        self.violations = list(violations or [])
        self.nontrivial = bool(nontrivial)
        self.classes = list(classes)
        self.stats = stats or {}


class HarnessError(Exception):
    """Something is wrong with the harness itself (exit 2, never a violation)."""


def spec_hash(spec):
    s = json.dumps(spec, sort_keys=True, separators=(",", ":"), default=str)
    return hashlib.sha1(s.encode()).hexdigest()[:14]


def guarded(fn, *args, **kwargs):
    """Call code under test.  Returns (True, value) or (False, 'Type: msg @ where').

    Exceptions raised while running cotengra on a valid input are reported
    by the caller as violations; exceptions in harness code are not routed
    through here.
    """
    try:
        return True, fn(*args, **kwargs)
    except HarnessError:
        raise
    except Exception as e:  # noqa
        tb = traceback.extract_tb(e.__traceback__)
        where = ""
        for fr in reversed(tb):
            if "cotengra" in fr.filename:
                where = f"{os.path.basename(fr.filename)}:{fr.lineno} {fr.name}"
                break
        msg = str(e).replace("\n", " ")[:200]
        if not where and isinstance(e, (NameError, UnboundLocalError, AttributeError, KeyError, IndexError)) and not any(
            "cotengra" in fr.filename for fr in tb
        ):
            # a programming error in the harness's own code (no frame of the
            # library on the stack): harness trouble, never a violation
            raise HarnessError(f"harness code raised {type(e).__name__}: {msg}") from e
        return False, f"{type(e).__name__}: {msg} @ {where}"


def repo_root():
    return os.environ.get("VERIF_REPO", "/repo")


def assert_repo_import():
    import cotengra

    root = os.path.realpath(repo_root())
    f = os.path.realpath(cotengra.__file__)
    if not f.startswith(root + os.sep):
        raise HarnessError(f"cotengra imported from {f}, expected under {root}")


# ----------------------------------------------------------------------------
# known findings
# ----------------------------------------------------------------------------

VERIF_DIR = os.path.dirname(os.path.dirname(os.path.abspath(__file__)))


def load_known_findings(prop_id):
    """Return list of (signature_name, description) for *open* findings of
    this property.  ``fixed:`` entries suppress nothing."""
    path = os.path.join(VERIF_DIR, "KNOWN_FINDINGS.txt")
    out = []
    if not os.path.exists(path):
        return out
    with open(path) as f:
        for line in f:
            line = line.strip()
            if not line or line.startswith("#"):
                continue
            if line.startswith("open:"):
                parts = line[5:].split()
                kv = dict(p.split("=", 1) for p in parts if "=" in p and p.split("=")[0] in ("property", "sig"))
                if kv.get("property") == prop_id:
                    desc = line[5:].strip()
                    out.append((kv.get("sig", ""), desc))
    return out


# ----------------------------------------------------------------------------
# shard state
# ----------------------------------------------------------------------------


class ShardState:
    def __init__(self, prop_id, max_samples=4):
        self.prop_id = prop_id
        self.evaluations = 0
        self.nontrivial = set()
        self.classes = {}
        self.samples = []
        self.max_samples = max_samples
        self.stats = {}
        self.known_hits = {}
        self.fail = None  # (spec, violations)
        self.failing_hashes = set()
        self.post_fail_evals = 0
        self.t0 = time.time()

    def record(self, spec, out, h=None):
        self.evaluations += 1
        h = h or spec_hash(spec)
        if out.nontrivial:
            self.nontrivial.add(h)
            if len(self.samples) < self.max_samples:
                self.samples.append(spec)
        for c in out.classes:
            self.classes[c] = self.classes.get(c, 0) + 1
        for k, v in out.stats.items():
            if isinstance(v, (int, float)):
                if k.startswith("max_"):
                    self.stats[k] = max(self.stats.get(k, 0), v)
                else:
                    self.stats[k] = self.stats.get(k, 0) + v

    def result(self):
        return {
            "prop": self.prop_id,
            "evaluations": self.evaluations,
            "nontrivial": sorted(self.nontrivial),
            "classes": self.classes,
            "samples": self.samples,
            "stats": self.stats,
            "known_hits": self.known_hits,
            "fail": None
            if self.fail is None
            else {"spec": self.fail[0], "violations": self.fail[1]},
            "wall_s": time.time() - self.t0,
        }


class _Fail(Exception):
    pass


def _raise_fail():
    # one raise site only: Hypothesis distinguishes failures by the location
    # the exception was raised at
    raise _Fail()


class CaseTimeout(BaseException):
    """A single case exceeded its wall-clock allowance: inconclusive, the case
    is skipped and counted (never a violation)."""


class case_alarm:
    def __init__(self, seconds):
        self.seconds = seconds

    def __enter__(self):
        import signal
        import threading

        self.active = threading.current_thread() is threading.main_thread() and hasattr(signal, "setitimer")
        if self.active:
            def handler(signum, frame):
                raise CaseTimeout()

            self.old = signal.signal(signal.SIGALRM, handler)
            signal.setitimer(signal.ITIMER_REAL, self.seconds)
        return self

    def __exit__(self, *exc):
        import signal

        if self.active:
            signal.setitimer(signal.ITIMER_REAL, 0)
            signal.signal(signal.SIGALRM, self.old)
        return False


def run_hypothesis_shard(mod, tier, seed, shard, nshards, state, sub=None):
    """Drive ``mod.strategy`` / ``mod.run_case`` with Hypothesis."""
    import hypothesis
    from hypothesis import HealthCheck, Phase, given, settings
    from hypothesis import seed as hseed

    name = "" if sub is None else sub
    budget = mod.budget(tier) if sub is None else mod.budget(tier, sub)
    nex = max(1, budget["examples"] // nshards)
    case_seconds = budget.get("case_seconds", 300)
    shrink_budget = 250 if tier == "quick" else 2500
    known = {}
    sigs = getattr(mod, "KNOWN", {})
    for sig, desc in load_known_findings(mod.ID):
        if sig in sigs:
            known[sig] = (sigs[sig], desc)
        else:
            raise HarnessError(f"KNOWN_FINDINGS names unknown signature {sig}")

    strat = mod.strategy(tier) if sub is None else mod.strategy(tier, sub)
    run_case = mod.run_case if sub is None else (lambda s: mod.run_case(s, sub))

    @hseed((int(seed) * 1000 + shard) * 7 + (hash_sub(name) % 7))
    @settings(
        max_examples=nex,
        database=None,
        deadline=None,
        report_multiple_bugs=False,
        derandomize=False,
        suppress_health_check=list(HealthCheck),
        phases=(Phase.generate, Phase.shrink),
        verbosity=hypothesis.Verbosity.quiet,
    )
    @given(strat)
    def test(spec):
        h = spec_hash(spec)
        if state.fail is not None:
            state.post_fail_evals += 1
            no_shrink = getattr(mod, "NO_SHRINK", None)
            if (state.post_fail_evals > shrink_budget) or (
                no_shrink and any(no_shrink in v for v in state.fail[1])
            ):
                # shrink budget exhausted: replay known failures, pass the rest
                if h in state.failing_hashes:
                    _raise_fail()
                return
        try:
            with case_alarm(case_seconds):
                out = run_case(spec)
        except CaseTimeout:
            state.stats["case_timeouts"] = state.stats.get("case_timeouts", 0) + 1
            return
        if out.violations and known:
            keep = []
            for v in out.violations:
                hit = None
                for sig, (pred, desc) in known.items():
                    if pred(spec, v):
                        hit = sig
                        break
                if hit is None:
                    keep.append(v)
                else:
                    state.known_hits[hit] = state.known_hits.get(hit, 0) + 1
            out.violations = keep
        if state.fail is None or out.violations:
            state.record(spec, out, h)
        if out.violations:
            state.fail = (spec, out.violations)
            state.failing_hashes.add(h)
            _raise_fail()

    try:
        test()
    except _Fail:
        pass
    except hypothesis.errors.Flaky as e:
        # a failing spec was observed and is recorded (its replay file can be
        # confirmed independently); without one this is harness trouble
        if state.fail is None:
            raise HarnessError(f"flaky case: {e}")
        state.stats["flaky_during_shrink"] = 1


def hash_sub(name):
    return int(hashlib.sha1(name.encode()).hexdigest()[:6], 16)


def write_json(path, obj):
    tmp = path + ".tmp"
    with open(tmp, "w") as f:
        json.dump(obj, f, indent=1, sort_keys=True, default=str)
    os.replace(tmp, path)
