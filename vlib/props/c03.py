"""C03 - reported flops, write, max size and peak match the definition and
the shapes actually produced during execution."""

import math

import numpy as np
from hypothesis import strategies as st

from .. import gen, ref
from ..harness import Outcome, guarded

ID = "C03"
LEVEL = "exploration"
RULE = (
    "Hypothesis draws (network, random tree, ordered list of <=3 labels to "
    "slice or project, some of them restored again, traversal order in "
    "{None,dfs,surface_order,len,table}). Oracle A: contract_stats/total_flops/total_write/max_size/"
    "peak_size(order)/combo_cost(sum,max)/multiplicity and per-node legs, "
    "involved, size, flops equal the independent CostRef (product of dims of "
    "involved / surviving labels, x number of slices), exact integers. Oracle "
    "B: contracting with a recording (einsum, tensordot) implementation, the "
    "k-th pairwise result of every slice has prod(shape) == the size the tree "
    "reports for the k-th node of traverse(order), and the single-tensor "
    "calls are exactly the leaves the definition says need preprocessing. "
    "Non-trivial = >=1 sliced/projected label or a hyper/repeated label. "
    "Distinct = sha1(spec)."
)
ASSUMPTIONS = [
    "numpy backend; single-character labels",
    "a quarter of the trees are the product of simulated_anneal / parallel_temper / subtree_reconfigure; the figures are always judged against the steps the tree itself lists (traverse)",
    "peak follows the documented definition (inputs + output of the running step alive together)",
]


@st.composite
def cases(draw, max_n):
    net = draw(gen.networks(min_n=2, max_n=max_n, volume_limit=2**18))
    path = draw(gen.linear_paths(len(net["inputs"])))
    removed = draw(gen.removed_lists(net, max_k=3, max_prod=24))
    return {
        "net": net,
        "path": path,
        "removed": removed,
        "order": draw(st.sampled_from([None, "dfs", "surface_order", "len", "table"])),
        "table": draw(st.lists(st.integers(0, 3), min_size=1, max_size=6)),
        "prefer_einsum": draw(st.booleans()),
        "aseed": draw(st.integers(0, 999)),
        # positions (into the removal list) of labels restored again afterwards
        "restore": draw(st.lists(st.integers(0, 3), max_size=2, unique=True)) if removed and draw(st.booleans()) else [],
        # every figure is also asked for BEFORE the labels are removed and/or
        # between removing and restoring (lazily cached figures must follow)
        # the tree under examination may be one that a transformation produced
        "pre": draw(st.sampled_from([None, None, None, "anneal", "reconf", "temper"])),
        "pre_seed": draw(st.integers(0, 99)),
        # re-schedule between two executions: new surface order taken from this order
        "resurface": draw(st.sampled_from([None, None, "dfs", "len", "table"])),
        # ... or transform the tree between the two executions
        "between": draw(st.sampled_from([None, None, None, "reconf", "anneal", "sort", "centralities"])),
        # astronomically large sizes (counts beyond 2**64; nothing is executed
        # then) handed over as python ints, numpy integers or a mixture
        "big": draw(st.sampled_from([0, 0, 0, 16, 22])),
        "size_type": draw(st.sampled_from(["int", "int", "numpy", "mixed", "mixed_first_int"])),
        "touch_before": draw(st.booleans()),
        "touch_mid": draw(st.booleans()),
    }


def strategy(tier, sub=None):
    return st.one_of(cases(6), cases(10))


def budget(tier, sub=None):
    return {"examples": 16000 if tier == "quick" else 300000, "shards": 16}


def run_case(spec, sub=None):
    import cotengra as ctg

    from .c01 import make_order, rec_impl

    net = spec["net"]
    inputs = [tuple(t) for t in net["inputs"]]
    output = tuple(net["output"])
    sizes = dict(net["sizes"])
    n = len(inputs)
    removed = [(ix, p) for ix, p in spec["removed"]]
    viol = []
    big = spec.get("big") or 0
    if big:
        sizes = {ix: d << big for ix, d in sizes.items()}
        removed = [(ix, (None if p is None else p)) for ix, p in removed]
    st_ = spec.get("size_type", "int")
    given = dict(sizes)
    if st_ != "int":
        import numpy as _np

        for j, ix in enumerate(list(given)):
            as_np = st_ == "numpy" or (st_ == "mixed" and j % 2 == 0) or (st_ == "mixed_first_int" and j > 0)
            if as_np:
                given[ix] = _np.int64(given[ix])

    ok, tree = guarded(
        ctg.ContractionTree.from_path, inputs, output, given,
        path=[tuple(p) for p in spec["path"]],
    )
    if not ok:
        return Outcome([f"from_path raised {tree}"], False, ["error"])
    pre = spec.get("pre")
    if pre:
        sd_ = spec.get("pre_seed", 0)
        if pre == "anneal":
            ok, r = guarded(tree.simulated_anneal_, tsteps=2, numiter=3, tstart=5.0, seed=sd_)
        elif pre == "temper":
            ok, r = guarded(tree.parallel_temper_, tsteps=2, numiter=2, num_trees=2, parallel=False, seed=sd_)
        else:
            ok, r = guarded(tree.subtree_reconfigure_, subtree_size=4, maxiter=3, select="random", seed=sd_)
        if not ok:
            return Outcome([f"{pre} raised {r}"], False, ["error"])

    def touch():
        def go():
            tree.contract_stats()
            tree.peak_size()
            tree.max_size()
            tree.has_preprocessing()
            for node in list(tree.info):
                tree.get_size(node)
                tree.get_legs(node)
                if len(node) > 1:
                    tree.get_flops(node)
                    tree.get_involved(node)

        return guarded(go)

    if spec.get("touch_before"):
        ok, r = touch()
        if not ok:
            return Outcome([f"cost query raised {r}"], False, ["error"])
    for ix, p in removed:
        ok, r = guarded(tree.remove_ind_, ix, project=p)
        if not ok:
            return Outcome([f"remove_ind_({ix!r}, project={p}) raised {r}"], False, ["error"])
    if spec.get("touch_mid"):
        ok, r = touch()
        if not ok:
            return Outcome([f"cost query raised {r}"], False, ["error"])

    back = []
    for k_ in spec.get("restore", []):
        if k_ < len(removed) and removed[k_][0] not in back:
            back.append(removed[k_][0])
    for ix in back:
        ok, r = guarded(tree.restore_ind_, ix)
        if not ok:
            return Outcome([f"restore_ind_({ix!r}) raised {r}"], False, ["error"])
    removed = [(ix, p) for ix, p in removed if ix not in back]
    cr = ref.CostRef(inputs, output, sizes, removed)
    order = make_order({"order": spec["order"], "table": spec["table"]})

    def queries():
        q = {}
        q["stats"] = dict(tree.contract_stats())
        q["total_flops"] = tree.total_flops()
        q["total_write"] = tree.total_write()
        q["max_size"] = tree.max_size()
        q["multiplicity"] = tree.multiplicity
        q["nslices"] = tree.nslices
        q["steps"] = [(p, l, r) for p, l, r in tree.traverse(order)]
        q["peak"] = tree.peak_size(order=order)
        q["combo_sum"] = tree.combo_cost(factor=8, combine=sum)
        q["combo_max"] = tree.combo_cost(factor=8, combine=max)
        q["nodes"] = {
            p: (
                set(tree.get_legs(p)),
                set(tree.get_involved(p)),
                tree.get_size(p),
                tree.get_flops(p),
            )
            for p, _, _ in q["steps"]
        }
        q["leaf_sizes"] = [tree.get_size(frozenset([i])) for i in range(n)]
        tree.has_preprocessing()
        q["pre"] = sorted(tree.preprocessing)
        return q

    ok, q = guarded(queries)
    if not ok:
        return Outcome([f"cost query raised {q}"], False, ["error"])

    steps = q["steps"]
    # the traversal must be a valid order of all n-1 internal nodes
    seen = {frozenset([i]) for i in range(n)}
    for p, l, r in steps:
        if l not in seen or r not in seen or (l | r) != p:
            viol.append(f"traverse({spec['order']}) yields {sorted(p)} before its children")
            break
        seen.add(p)
    if len(steps) != n - 1:
        viol.append(f"traverse yields {len(steps)} steps for {n} tensors")
    if viol:
        return Outcome(viol, False, ["bad_traverse"])

    st_ = cr.stats(steps)
    want = {"flops": st_["flops"], "write": st_["write"], "size": st_["size"]}
    if q["stats"] != want:
        viol.append(f"contract_stats {q['stats']} != definition {want}")
    if q["total_flops"] != want["flops"]:
        viol.append(f"total_flops {q['total_flops']} != {want['flops']}")
    if q["total_write"] != want["write"]:
        viol.append(f"total_write {q['total_write']} != {want['write']}")
    if q["max_size"] != want["size"]:
        viol.append(f"max_size {q['max_size']} != {want['size']}")
    if q["multiplicity"] != cr.nslices or q["nslices"] != cr.nslices:
        viol.append(f"multiplicity {q['multiplicity']} != {cr.nslices}")
    if q["peak"] != cr.peak(steps):
        viol.append(f"peak_size({spec['order']}) {q['peak']} != definition {cr.peak(steps)}")
    if q["combo_sum"] != cr.combo(steps, 8, "sum"):
        viol.append(f"combo_cost(sum) {q['combo_sum']} != {cr.combo(steps, 8, 'sum')}")
    if q["combo_max"] != cr.combo(steps, 8, "max"):
        viol.append(f"combo_cost(max) {q['combo_max']} != {cr.combo(steps, 8, 'max')}")
    for p, l, r in steps:
        legs, inv, size, flops = q["nodes"][p]
        w = (set(cr.legs(p)), set(cr.involved(l, r)), cr.size(p), cr.flops(l, r))
        if (legs, inv, size, flops) != w:
            viol.append(
                f"node {sorted(p)}: legs/involved/size/flops "
                f"{sorted(legs)}/{sorted(inv)}/{size}/{flops} != definition "
                f"{sorted(w[0])}/{sorted(w[1])}/{w[2]}/{w[3]}"
            )
            break
    want_leaf = [cr.size(frozenset([i])) for i in range(n)]
    if q["leaf_sizes"] != want_leaf:
        viol.append(f"leaf sizes {q['leaf_sizes']} != {want_leaf}")
    want_pre = [i for i in range(n) if cr.leaf_simplifiable(i)]
    if q["pre"] != want_pre:
        viol.append(f"preprocessed leaves {q['pre']} != definition {want_pre}")

    # Oracle B: execution
    if not viol and not big:
        arrays = ref.make_arrays(inputs, sizes, spec["aseed"], "f")
        log = []
        ok, got = guarded(
            tree.contract, arrays, order=order,
            prefer_einsum=spec["prefer_einsum"], implementation=rec_impl(log),
        )
        if not ok:
            viol.append(f"contract raised {got}")
        else:
            per_slice = len(want_pre) + (n - 1)
            if len(log) != per_slice * cr.nslices:
                viol.append(
                    f"{len(log)} backend calls, expected {per_slice} x {cr.nslices} slices"
                )
            else:
                for s in range(cr.nslices):
                    chunk = log[s * per_slice : (s + 1) * per_slice]
                    pre, pair = chunk[: len(want_pre)], chunk[len(want_pre) :]
                    if any(k != "einsum1" for k, _ in pre) or any(
                        k == "einsum1" for k, _ in pair
                    ):
                        viol.append("single-tensor calls are not exactly the simplifiable leaves")
                        break
                    got_pre = sorted(math.prod(shp) for _, shp in pre)
                    if got_pre != sorted(want_leaf[i] for i in want_pre):
                        viol.append(f"preprocessed leaf sizes {got_pre} differ")
                        break
                    got_sizes = [math.prod(shp) for _, shp in pair]
                    rep = [q["nodes"][p][2] for p, _, _ in steps]
                    if got_sizes != rep:
                        viol.append(
                            f"slice {s}: produced intermediate sizes {got_sizes} != reported {rep}"
                        )
                        break

    # a derived (non-inplace) tree and the tree it was derived from must both
    # keep reporting their own figures
    if not viol:
        rest = [ix for ix in sizes if ix not in dict(removed)]
        if rest:
            ix2 = rest[spec["aseed"] % len(rest)]
            ok, t2 = guarded(tree.remove_ind, ix2)
            if not ok:
                viol.append(f"remove_ind({ix2!r}) raised {t2}")
            else:
                cr2 = ref.CostRef(inputs, output, sizes, removed + [(ix2, None)])
                st2 = cr2.stats([(p, l, r) for p, l, r in t2.traverse()])
                got2 = dict(t2.contract_stats())
                if got2 != {"flops": st2["flops"], "write": st2["write"], "size": st2["size"]} or t2.max_size() != st2["size"]:
                    viol.append(f"derived tree (sliced on {ix2!r}) reports {got2}, definition {st2['flops']}/{st2['write']}/{st2['size']}")
                again = dict(tree.contract_stats())
                if again != want or tree.max_size() != want["size"] or tree.total_flops() != want["flops"]:
                    viol.append(
                        f"after deriving a sliced tree with remove_ind({ix2!r}), the ORIGINAL tree reports {again} (max_size {tree.max_size()}), definition {want}"
                    )

    # Oracle C: the schedule is changed between two executions through the SAME
    # options (same implementation object, order='surface_order'): what is
    # produced the second time must follow what the tree reports then
    if not viol and not big and (spec.get("resurface") or spec.get("between")) and n >= 3:
        arrays = ref.make_arrays(inputs, sizes, spec["aseed"], "f")
        log = []
        impl = rec_impl(log)
        kwc = dict(order="surface_order", prefer_einsum=spec["prefer_einsum"], implementation=impl)
        ok, got = guarded(tree.contract, arrays, **kwc)
        if ok and spec.get("resurface"):
            other = make_order({"order": spec["resurface"], "table": spec["table"]})
            ok, r = guarded(lambda: tree.set_surface_order_from_path(tree.get_ssa_path(order=other)))
        if ok and spec.get("between"):
            b_ = spec["between"]
            sd2 = spec.get("pre_seed", 0)
            if b_ == "reconf":
                ok, r = guarded(tree.subtree_reconfigure_, subtree_size=3, maxiter=1, select="random", seed=sd2)
            elif b_ == "anneal":
                ok, r = guarded(tree.simulated_anneal_, tsteps=1, numiter=2, tstart=5.0, seed=sd2)
            elif b_ == "centralities":
                # (re-defines what the default 'surface_order' is)
                ok, r = guarded(tree.compute_centralities, combine=["max", "min", "sum"][sd2 % 3])
            else:
                ok, r = guarded(tree.sort_contraction_indices)
        if ok:
            del log[:]
            ok, got = guarded(tree.contract, arrays, **kwc)
        if not ok:
            viol.append(f"contract / set_surface_order_from_path raised {got if isinstance(got, str) else r}")
        else:
            steps2 = [(p, l, r) for p, l, r in tree.traverse("surface_order")]
            if spec.get("resurface"):
                # a copy must carry the schedule that was installed
                ok_c, steps_c = guarded(lambda: [(p, l, r) for p, l, r in tree.copy().traverse("surface_order")])
                if not ok_c:
                    viol.append(f"copy().traverse('surface_order') raised {steps_c}")
                elif steps_c != steps2:
                    viol.append(
                        "after set_surface_order_from_path a copy() of the tree replays another 'surface_order' "
                        "schedule than the tree it was copied from"
                    )
            per_slice = len(want_pre) + (n - 1)
            rep2 = [tree.get_size(p) for p, _, _ in steps2]
            for s_ in range(cr.nslices):
                chunk = log[s_ * per_slice : (s_ + 1) * per_slice]
                got_sizes = [math.prod(shp) for k_, shp in chunk if k_ != "einsum1"]
                if got_sizes != rep2:
                    viol.append(
                        f"second execution (after {spec.get('resurface') and 'set_surface_order_from_path'} / {spec.get('between')}): slice {s_} produced intermediate sizes {got_sizes}, "
                        f"the tree reports {rep2} for traverse('surface_order')"
                    )
                    break

    cls = gen.net_classes(net)
    nontrivial = bool(removed) or bool(cls & {"hyper", "repeat"})
    tags = sorted(cls) + [f"order={spec['order']}", f"removed={len(removed)}"] + (["restored_some"] if back else [])
    if spec.get("pre"):
        tags.append(f"tree_from={spec['pre']}")
    if (spec.get("resurface") or spec.get("between")) and n >= 3 and not big:
        tags.append("rescheduled_between_executions")
    if big:
        tags.append(f"counts_beyond_64_bits:{st_}")
    elif st_ != "int":
        tags.append(f"sizes_as={st_}")
    if spec.get("touch_before") or spec.get("touch_mid"):
        tags.append("queried_before_final_state")
    if any(p is not None for _, p in removed):
        tags.append("projected")
    if any(ix in output for ix, _ in removed):
        tags.append("output_sliced")
    return Outcome(viol, nontrivial, tags)
