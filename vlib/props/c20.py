"""C20 - compressed estimates equal the exact ones when nothing is truncated."""

import math
import warnings

from hypothesis import strategies as st

from .. import gen, ref
from ..harness import Outcome, guarded

ID = "C20"
LEVEL = "exploration"
RULE = (
    "Hypothesis draws ordinary networks (no repeated label inside a tensor; "
    "hyper labels, batch outputs, disconnected parts allowed; in 3/4 of the "
    "cases every label is on >=2 tensors or in the output, the rest may have "
    "labels on a single tensor that are summed: there the equalities are the "
    "open known finding dangling_label_not_presummed and only the "
    "monotonicity in chi is asserted) x random tree x order in {dfs, "
    "surface_order, callable} x compress_late x chi in {1,2,4,16,huge}. "
    "Oracle at chi=huge AND at chi = the largest bond that arises (computed by "
    "an own simulation: nothing is truncated at either): flops == CostRef total flops; max_size == max("
    "largest input, largest intermediate); write == CostRef write + total "
    "input size. For every chi: max_size, peak_size and write <= their "
    "uncapped values. For connected ordinary networks the compressed finders "
    "greedy-compressed / greedy-span / kahypar-agglom (parameters drawn from "
    "their registered spaces) and HyperCompressedOptimizer must return a "
    "complete ContractionTreeCompressed of the queried network whose default "
    "(surface order) path is a valid ordering. Non-trivial = >=4 tensors and "
    "(a hyper label or chi below the largest bond, or a finder case). "
    "Distinct = sha1(spec)."
)
ASSUMPTIONS = [
    "the compressed tracker counts input tensors in size and write by design, so 'largest tensor' includes inputs",
    "peak is not asserted equal to the exact peak (defined differently)",
]

HUGE = 10**30


def make_ordinary(net):
    cnt = {}
    for t in net["inputs"]:
        for ix in t:
            cnt[ix] = cnt.get(ix, 0) + 1
    for ix, c in cnt.items():
        if c == 1 and ix not in net["output"]:
            net["output"].append(ix)
    return net


def dangling_labels(net):
    cnt = {}
    for t in net["inputs"]:
        for ix in t:
            cnt[ix] = cnt.get(ix, 0) + 1
    return sorted(ix for ix, c in cnt.items() if c == 1 and ix not in net["output"])


def known_dangling(spec, v):
    """Open finding: with a label on exactly one tensor and not in the output the
    exact figures assume its documented pre-summation, the compressed
    simulation starts from the raw inputs: the 'nothing truncated' equalities
    fail (only those; the monotonicity in chi is still asserted)."""
    return (
        spec.get("kind") == "stats"
        and bool(dangling_labels(spec["net"]))
        and ("!= exact flops" in v or "!= largest tensor" in v or "!= exact write" in v)
    )


KNOWN = {"dangling_label_not_presummed": known_dangling}


@st.composite
def stat_cases(draw):
    net = draw(gen.networks(min_n=2, max_n=9, allow_repeat=False, volume_limit=2**60, max_dim=5))
    if draw(st.integers(0, 3)) != 0:
        # three quarters of the cases: every label on >= 2 tensors or in the output
        net = make_ordinary(net)
    return {
        "kind": "stats",
        "net": net,
        "path": draw(gen.linear_paths(len(net["inputs"]))),
        "order": draw(st.sampled_from(["dfs", "surface_order", "len", "table"])),
        "table": draw(st.lists(st.integers(0, 3), min_size=1, max_size=5)),
        "compress_late": draw(st.booleans()),
        # the same figures are asked for again after the tree was reconfigured
        # (in place, or as a non-inplace copy)
        "again_after": draw(st.sampled_from([None, None, "reconf", "reconf_copy", "anneal"])),
        "seed": draw(st.integers(0, 99)),
    }


@st.composite
def finder_cases(draw):
    from .c05 import space_strategy

    net = make_ordinary(
        draw(
            gen.networks(
                min_n=2, max_n=14, allow_repeat=False, allow_scalar=False,
                connected=True, volume_limit=2**60, max_dim=4, allow_size1=False,
            )
        )
    )
    m = draw(st.sampled_from([
        "greedy-compressed", "greedy-span", "kahypar-agglom", "hyper",
        "preset:greedy-compressed", "preset:greedy-span", "windowed",
    ]))
    spec = {"kind": "finder", "net": net, "method": m, "seed": draw(st.integers(0, 99))}
    if m == "windowed":
        # a greedy-compressed tree refined window by window: with the default
        # window (20 steps, more than these networks have) or an explicit one
        spec["window"] = draw(st.sampled_from([None, None, 2, 4, 8]))
    elif m != "hyper" and not m.startswith("preset:"):
        spec["params"] = draw(space_strategy(m))
    if m.startswith("preset:"):
        spec["entry"] = draw(st.sampled_from(["tree", "path"]))
    return spec


@st.composite
def scalar_cases(draw):
    """The degenerate end of 'ordinary network': scalars only, no label at
    all (what a partitioner hands to its sub-optimizer for a part without
    bonds) - nothing can be truncated, so every estimate is the exact figure,
    whatever the cap, the default cap included."""
    n = draw(st.integers(2, 6))
    return {"kind": "scalars", "n": n, "path": draw(gen.linear_paths(n)), "late": draw(st.booleans())}


def strategy(tier, sub=None):
    return st.integers(0, 39).flatmap(
        lambda i: scalar_cases() if i == 0 else st.one_of(stat_cases(), stat_cases(), finder_cases())
    )


def budget(tier, sub=None):
    return {"examples": 19200 if tier == "quick" else 200000, "shards": 16}


def run_stats(spec):
    import cotengra as ctg

    from .c01 import make_order

    net = spec["net"]
    inputs = [tuple(t) for t in net["inputs"]]
    output = tuple(net["output"])
    sizes = dict(net["sizes"])
    n = len(inputs)
    viol = []
    ok, tree = guarded(
        ctg.ContractionTree.from_path, inputs, output, sizes,
        path=[tuple(p) for p in spec["path"]],
    )
    if not ok:
        return Outcome([f"from_path raised {tree}"], False, ["error"])
    order = make_order({"order": spec["order"], "table": spec["table"]})
    late = spec["compress_late"]
    cr = ref.CostRef(inputs, output, sizes)
    steps = [(p, l, r) for p, l, r in tree.traverse(order)]
    st_ = cr.stats(steps)
    in_sizes = [math.prod(sizes[ix] for ix in t) for t in inputs]

    # the tightest cap that still truncates nothing: the largest product of
    # sizes of labels shared by exactly the same set of current tensors, over
    # every configuration the contraction goes through (my own simulation)
    nodes = [frozenset([i]) for i in range(n)]
    tight = 1

    def bonds(nodes):
        groups = {}
        for k_, nd in enumerate(nodes):
            for ix in cr.legs(nd):
                if ix not in output:
                    groups.setdefault(ix, set()).add(k_)
        by_inc = {}
        for ix, inc in groups.items():
            by_inc.setdefault(frozenset(inc), []).append(ix)
        return [math.prod(sizes[ix] for ix in ixs) for ixs in by_inc.values()]

    tight = max([tight] + bonds(nodes))
    for p_, l_, r_ in steps:
        nodes = [nd for nd in nodes if nd != l_ and nd != r_] + [p_]
        tight = max([tight] + bonds(nodes))

    res = {}
    for chi in (1, 2, 4, 16, tight, HUGE):
        ok, tr = guarded(tree.compressed_contract_stats, chi=chi, order=order, compress_late=late)
        if not ok:
            viol.append(f"compressed_contract_stats(chi={chi}) raised {tr}")
            return Outcome(viol, False, ["error"])
        res[chi] = (tr.flops, tr.max_size, tr.peak_size, tr.write)
    want_ms = max(in_sizes + [s for _, _, s in st_["per"]])
    for chi, name in ((HUGE, "uncapped"), (tight, f"chi={tight} (= the largest bond that arises)")):
        f, ms, pk, w = res[chi]
        if f != st_["flops"]:
            viol.append(f"{name}: compressed flops {f} != exact flops {st_['flops']}")
        if ms != want_ms:
            viol.append(f"{name}: compressed max_size {ms} != largest tensor {want_ms}")
        if w != st_["write"] + sum(in_sizes):
            viol.append(
                f"{name}: compressed write {w} != exact write {st_['write']} + inputs {sum(in_sizes)}"
            )
    f, ms, pk, w = res[HUGE]
    for chi in (1, 2, 4, 16):
        _, ms_c, pk_c, w_c = res[chi]
        if ms_c > ms or pk_c > pk or w_c > w:
            viol.append(
                f"chi={chi}: (max_size, peak, write) ({ms_c}, {pk_c}, {w_c}) exceeds the uncapped ({ms}, {pk}, {w})"
            )
            break
    # metamorphic: the NUMBERING of the tensors must not matter, for any cap -
    # the same network with its tensors listed in another order, the same tree
    # and the same step order give the same four estimates
    if not viol and n >= 3:
        k_ = 1 + spec.get("seed", 0) % (n - 1)
        perm = list(range(k_, n)) + list(range(k_))  # new position j holds old tensor perm[j]
        newpos = {old: j for j, old in enumerate(perm)}
        inputs_b = [inputs[old] for old in perm]
        nodes_a = [p_ for p_, _, _ in ref.ssa_nodes(ref.linear_to_ssa_ref([tuple(q) for q in spec["path"]], n), n)]
        rank_a = {frozenset(nd): r_ for r_, nd in enumerate(nodes_a)}
        rank_b = {frozenset(newpos[i] for i in nd): r_ for nd, r_ in rank_a.items()}
        ssa_b = []
        ids_b = {frozenset([j]): j for j in range(n)}
        nxt = n
        for p_, l_, r_ in ref.ssa_nodes(ref.linear_to_ssa_ref([tuple(q) for q in spec["path"]], n), n):
            lb = frozenset(newpos[i] for i in l_)
            rb = frozenset(newpos[i] for i in r_)
            ssa_b.append((ids_b[lb], ids_b[rb]))
            ids_b[lb | rb] = nxt
            nxt += 1

        def both(chi):
            ta = ctg.ContractionTree.from_path(inputs, output, sizes, path=[tuple(q) for q in spec["path"]])
            tb = ctg.ContractionTree.from_path(inputs_b, output, sizes, ssa_path=ssa_b)
            sa = ta.compressed_contract_stats(chi=chi, order=lambda nd: rank_a[frozenset(nd)], compress_late=late)
            sb = tb.compressed_contract_stats(chi=chi, order=lambda nd: rank_b[frozenset(nd)], compress_late=late)
            return (sa.flops, sa.max_size, sa.peak_size, sa.write), (sb.flops, sb.max_size, sb.peak_size, sb.write)

        for chi in (1, 2, 4):
            ok, r = guarded(both, chi)
            if not ok:
                viol.append(f"compressed_contract_stats(chi={chi}) on the renumbered network raised {r}")
                break
            if r[0] != r[1]:
                viol.append(
                    f"chi={chi}: (flops, max_size, peak, write) {r[0]} but {r[1]} for the same network, tree and step "
                    f"order with the tensors listed in another order (rotated by {k_})"
                )
                break
    # a compressed tree told its objective BY NAME must use that objective's cap
    # for its default figures (as reusable optimizers do when they rebuild a tree)
    if not viol and n >= 2 and sizes:
        chi_o = 2 if spec.get("seed", 0) % 2 else 4

        def named():
            tc = ctg.ContractionTreeCompressed.from_path(
                inputs, output, sizes, path=[tuple(p) for p in spec["path"]], objective=f"peak-compressed-{chi_o}"
            )
            want_ = tc.compressed_contract_stats(chi=chi_o)
            return tc.get_default_chi(), tc.total_flops(), tc.max_size(), want_.flops, want_.max_size

        ok, r = guarded(named)
        if not ok:
            viol.append(f"compressed tree with objective given by name raised {r}")
        else:
            dchi, tf, ms, wf, wms = r
            if dchi != chi_o or tf != wf or ms != wms:
                viol.append(
                    f"ContractionTreeCompressed(objective='peak-compressed-{chi_o}') uses default chi {dchi}: "
                    f"total_flops()={tf}, max_size()={ms}; with chi={chi_o} they are {wf}, {wms}"
                )
    aa = spec.get("again_after")
    if aa and not viol and n >= 3 and not dangling_labels(net):
        sd_ = spec.get("seed", 0)
        if aa == "reconf":
            ok, t2 = guarded(tree.subtree_reconfigure_, subtree_size=3, maxiter=1, select="random", seed=sd_)
        elif aa == "reconf_copy":
            ok, t2 = guarded(tree.subtree_reconfigure, subtree_size=3, maxiter=1, select="random", seed=sd_)
        else:
            ok, t2 = guarded(tree.simulated_anneal_, tsteps=1, numiter=2, tstart=5.0, seed=sd_)
        if not ok:
            viol.append(f"{aa} raised {t2}")
        else:
            steps2 = [(p, l, r) for p, l, r in t2.traverse(order)]
            st2 = cr.stats(steps2)
            ok, tr = guarded(t2.compressed_contract_stats, chi=HUGE, order=order, compress_late=late)
            if not ok:
                viol.append(f"compressed_contract_stats after {aa} raised {tr}")
            else:
                want2 = max(in_sizes + [s_ for _, _, s_ in st2["per"]])
                if (tr.flops, tr.max_size, tr.write) != (st2["flops"], want2, st2["write"] + sum(in_sizes)):
                    viol.append(
                        f"after {aa}: uncapped compressed (flops, max_size, write) {(tr.flops, tr.max_size, tr.write)} != "
                        f"exact figures of the tree as it is now {(st2['flops'], want2, st2['write'] + sum(in_sizes))}"
                    )
    cls = sorted(gen.net_classes(net) & {"hyper", "disconnected", "batch_output", "scalar"})
    cls += ["kind=stats", f"order={spec['order']}", f"late={late}"]
    if aa:
        cls.append(f"again_after={aa}")
    if dangling_labels(net):
        cls.append("dangling_label")
    maxbond = max(sizes.values(), default=1)
    nontrivial = n >= 4 and ("hyper" in cls or maxbond > 2)
    return Outcome(viol, nontrivial, cls)


def run_finder(spec):
    import cotengra as ctg
    from cotengra.hyperoptimizers import hyper as H

    from .c05 import check_tree

    net = spec["net"]
    inputs = [tuple(t) for t in net["inputs"]]
    output = tuple(net["output"])
    sizes = dict(net["sizes"])
    n = len(inputs)
    viol = []
    m = spec["method"]

    def go():
        with warnings.catch_warnings():
            warnings.simplefilter("ignore")
            if m == "hyper":
                opt = ctg.HyperCompressedOptimizer(
                    max_repeats=3, optlib="random", parallel=False,
                    on_trial_error="raise", seed=spec["seed"],
                )
                return opt.search(inputs, output, sizes)
            if m.startswith("preset:"):
                # the string presets of the high-level interface
                name = m.split(":")[1]
                if spec.get("entry") == "path":
                    path = ctg.array_contract_path(inputs, output, sizes, optimize=name, canonicalize=False, cache=False)
                    return ctg.ContractionTreeCompressed.from_path(inputs, output, sizes, path=path, autocomplete=False)
                return ctg.array_contract_tree(inputs, output, sizes, optimize=name, canonicalize=False)
            if m == "windowed":
                # (built as a compressed tree from the finder's path: for <= 2
                # tensors the interface answers with a plain tree, whose
                # objective knows no cap)
                path = ctg.array_contract_path(inputs, output, sizes, optimize="greedy-compressed", canonicalize=False, cache=False)
                t0 = ctg.ContractionTreeCompressed.from_path(inputs, output, sizes, path=path)
                kw_ = {} if spec.get("window") is None else {"window_size": spec["window"]}
                return t0.windowed_reconfigure(max_iterations=3, seed=spec["seed"], **kw_)
            params = dict(spec["params"])
            tree = H._PATH_FNS[m](inputs, output, sizes, **params, **H.get_hyper_constants()[m])
            return tree

    ok, tree = guarded(go)
    what = f"compressed finder {m}"
    if not ok:
        viol.append(f"{what} raised {tree}")
    else:
        check_tree(tree, inputs, output, sizes, viol, what)
        if not viol:
            if m in ("greedy-compressed", "greedy-span", "hyper", "windowed") and not isinstance(
                tree, ctg.ContractionTreeCompressed
            ):
                viol.append(f"{what} returned {type(tree).__name__}, not a ContractionTreeCompressed")
            ok, p = guarded(tree.get_path)
            if not ok:
                viol.append(f"{what}: get_path() raised {p}")
            else:
                msg = ref.check_path_valid([tuple(s) for s in p], n)
                if msg or (n > 1 and len(p) != n - 1):
                    viol.append(f"{what}: default-order path invalid: {msg or 'wrong length'}")
            if isinstance(tree, ctg.ContractionTreeCompressed):
                ok, s = guarded(lambda: (tree.max_size(), tree.peak_size(), tree.total_flops()))
                if not ok:
                    viol.append(f"{what}: compressed stats raised {s}")
                else:
                    # the estimates under their other accessor names, uncapped:
                    # they are the exact figures of this tree (default order)
                    cr = ref.CostRef(inputs, output, sizes)
                    ok, st_ = guarded(lambda: cr.stats([(p_, l_, r_) for p_, l_, r_ in tree.traverse(tree.get_default_order())]))
                    ok2, acc = guarded(
                        lambda: (
                            tree.total_flops(HUGE), tree.contraction_cost(HUGE), tree.max_size(HUGE),
                            tree.contraction_width(HUGE), tree.total_write(HUGE),
                        )
                    )
                    if ok and not ok2:
                        viol.append(f"{what}: uncapped accessors raised {acc}")
                    elif ok and ok2:
                        in_sizes = [math.prod(sizes[ix] for ix in t) for t in inputs]
                        want_ms = max(in_sizes + [s_ for _, _, s_ in st_["per"]])
                        tf, cc, ms, cw, tw = acc
                        if tf != st_["flops"] or cc != st_["flops"]:
                            viol.append(f"{what}: total_flops(huge)={tf}, contraction_cost(huge)={cc}, exact flops of the tree {st_['flops']}")
                        elif ms != want_ms or abs(2.0 ** cw - want_ms) > 1e-6 * want_ms:
                            viol.append(f"{what}: max_size(huge)={ms}, 2**contraction_width(huge)={2.0 ** cw}, largest tensor {want_ms}")
                        elif tw != st_["write"] + sum(in_sizes):
                            viol.append(f"{what}: total_write(huge)={tw}, exact write + inputs {st_['write'] + sum(in_sizes)}")
    return Outcome(viol, n >= 3, ["kind=finder", f"method={m}"])


def run_scalars(spec):
    import cotengra as ctg

    n = spec["n"]
    inputs, output, sizes = [()] * n, (), {}
    viol = []
    path = [tuple(p) for p in spec["path"]]
    cr = ref.CostRef(inputs, output, sizes)

    def figures():
        tc = ctg.ContractionTreeCompressed.from_path(inputs, output, sizes, path=path)
        exact = ctg.ContractionTree.from_path(inputs, output, sizes, path=path)
        st_ = cr.stats([(p, l, r) for p, l, r in exact.traverse()])
        capped = tc.compressed_contract_stats(chi=4, compress_late=spec["late"])
        return (
            (st_["flops"], st_["size"], st_["write"]),
            (capped.flops, capped.max_size, capped.write - n),
            # ... and with the default cap (chi='auto')
            (tc.total_flops(), tc.max_size(), tc.total_write() - n),
        )

    ok, r = guarded(figures)
    if not ok:
        viol.append(f"compressed estimates of a network of {n} scalars raised {r}")
    else:
        want, capped, default = r
        if capped != want:
            viol.append(f"{n} scalars, chi=4: compressed (flops, max_size, write - inputs) {capped} != exact {want}")
        if default != want:
            viol.append(f"{n} scalars, default cap: compressed (flops, max_size, write - inputs) {default} != exact {want}")
    for preset in ("greedy-compressed",):
        ok, t = guarded(ctg.array_contract_tree, inputs, output, sizes, optimize=preset)
        if not ok:
            viol.append(f"compressed finder {preset} on {n} scalars raised {t}")
        elif not t.is_complete():
            viol.append(f"compressed finder {preset} on {n} scalars: tree is not complete")
    return Outcome(viol, n >= 3, ["scalars_only", f"n={n}"])


def run_case(spec, sub=None):
    if spec["kind"] == "stats":
        return run_stats(spec)
    if spec["kind"] == "scalars":
        return run_scalars(spec)
    return run_finder(spec)
