"""C19 - exponent stripping preserves the value and survives extreme scales."""

import math

import numpy as np
from hypothesis import strategies as st

from .. import gen, ref
from ..harness import Outcome, guarded

ID = "C19"
LEVEL = "exploration"
RULE = (
    "Hypothesis draws (network, random tree, sliced labels inner and output "
    "(product <=24), per-tensor decimal scale in [-100,100], dtype, API in "
    "{tree.contract, tree.gen_output_chunks re-assembled by key, "
    "array_contract, einsum, single-tensor expression}, "
    "prefer_einsum/implementation, check_zero; with check_zero=True up to 3 "
    "hyperplanes of the inputs along sliced labels are zeroed: identically "
    "zero slices / chunks, non-zero total; optionally the hyperplanes of one "
    "sliced label get decades of their own in [-100,100], so the slices "
    "differ by up to 200 decades). Arrays = integer-valued base bounded away "
    "from zero x 10**scale. Oracle in the log domain: exact dense reference "
    "of the UNSCALED bases (never overflows) and the sum of scales; "
    "|mantissa x 10**(exponent - sum) - reference| <= 1e-9 x (the same "
    "contraction of |bases|), mantissa and exponent finite, shape as "
    "declared. Bases are strictly positive whenever labels are sliced (so no "
    "slice or intermediate is identically zero: the property's non-zero "
    "premise), signed/complex otherwise with all-zero results skipped. "
    "Non-trivial = |sum of scales| > 300 (plain float contraction would "
    "overflow/underflow) or sliced labels present. Distinct = sha1(spec)."
)
ASSUMPTIONS = [
    "floating point: tolerance 1e-9 relative to the absolute-value contraction (a sound rounding bound)",
    "numpy backend",
]


@st.composite
def cases(draw):
    api = draw(st.sampled_from(["tree", "tree", "chunks", "array_contract", "einsum", "single"]))
    if api == "single":
        net = draw(gen.networks(min_n=1, max_n=1, alphabets=("ascii",), volume_limit=2**12))
    else:
        net = draw(
            gen.networks(
                min_n=2, max_n=9, volume_limit=2**16,
                alphabets=("ascii",) if api == "einsum" else ("ascii", "shuffled", "wide"),
            )
        )
    n = len(net["inputs"])
    removed = []
    if api in ("tree", "chunks") and draw(st.integers(0, 3)) != 0:
        removed = [r for r in draw(gen.removed_lists(net, max_k=3, max_prod=24, allow_project=False))]
    # check_zero=True is the documented way to contract when a slice (or an
    # intermediate) is identically zero: with it, some hyperplanes of the
    # inputs along sliced labels are zeroed so that whole slices vanish while
    # the result does not
    check_zero = draw(st.booleans())
    zero_planes = []
    if check_zero and removed:
        zero_planes = draw(
            st.lists(st.tuples(st.integers(0, 5), st.integers(0, 8), st.integers(0, 5)), min_size=0, max_size=3)
        )
    mode = draw(st.sampled_from(["small", "mixed", "huge", "tiny", "huge", "tiny"]))
    rng_s = {
        "small": st.integers(-3, 3),
        "mixed": st.integers(-100, 100),
        "huge": st.integers(40, 100),
        "tiny": st.integers(-100, -40),
    }[mode]
    return {
        "net": net,
        "path": draw(gen.linear_paths(n)) if n > 1 else [],
        "removed": removed,
        "scales": [draw(rng_s) for _ in range(n)],
        "share": draw(st.sampled_from([False, False, True])),
        "dtype": draw(st.sampled_from(["f", "c"])),  # (f4 / c8 are understood by run_case but not generated: no sound tolerance separates exponent rounding from float32 noise on networks this small)
        "signed": draw(st.booleans()),
        "api": api,
        "prefer_einsum": draw(st.booleans()),
        "impl": draw(st.sampled_from([None, "cotengra", "autoray"])),
        "aseed": draw(st.integers(0, 999)),
        "check_zero": check_zero,
        # the same tree object is first used once WITHOUT check_zero (on arrays
        # that have no zeros): options given later must still take effect
        "warm_first": draw(st.booleans()),
        "zero_planes": [list(z) for z in zero_planes],
        # different decades for the different values of one sliced label (on
        # one tensor carrying it): the slices differ by up to 200 decades
        "plane_scales": (
            [draw(st.integers(0, 5)), draw(st.integers(0, 8)), [draw(st.integers(-100, 100)) for _ in range(6)]]
            if removed and draw(st.booleans()) else None
        ),
    }


def strategy(tier, sub=None):
    return cases()


def budget(tier, sub=None):
    return {"examples": 32000 if tier == "quick" else 1000000, "shards": 16}


def run_case(spec, sub=None):
    import cotengra as ctg

    net = spec["net"]
    inputs = [tuple(t) for t in net["inputs"]]
    output = tuple(net["output"])
    sizes = dict(net["sizes"])
    n = len(inputs)
    removed = [(ix, p) for ix, p in spec["removed"]]
    signed = spec["signed"] and not removed
    single = spec["dtype"] in ("f4", "c8")
    base_kind = {"f4": "f", "c8": "c"}.get(spec["dtype"], spec["dtype"])
    bases = ref.make_arrays(inputs, sizes, spec["aseed"], base_kind, lo=-3, hi=3, nonzero=True)
    if not signed:
        bases = [np.abs(b.real) + (1j * np.abs(b.imag) if base_kind == "c" else 0) for b in bases]
        if base_kind != "c":
            bases = [b.real.astype(np.float64) for b in bases]
    check_zero = bool(spec.get("check_zero"))
    nzero = 0
    if check_zero and removed:
        for j, k, v in spec.get("zero_planes", []):
            ix = removed[j % len(removed)][0]
            holders = [i for i, t in enumerate(inputs) if ix in t]
            i = holders[k % len(holders)]
            sel = tuple((v % sizes[ix]) if lab == ix else slice(None) for lab in inputs[i])
            bases[i] = bases[i].copy()
            bases[i][sel] = 0
            nzero += 1
    # per-slice decades: the holder's hyperplane v is scaled by 10**(s_v - smax)
    # in the (then no longer integer) bases and smax joins the sum of scales
    extra = 0
    ps = spec.get("plane_scales")
    if spec["dtype"] in ("f4", "c8"):
        ps = None  # (per-slice decades are a double precision exercise)
    if ps and removed:
        j, k, svals = ps
        ix = removed[j % len(removed)][0]
        holders = [i for i, t in enumerate(inputs) if ix in t]
        i = holders[k % len(holders)]
        d = sizes[ix]
        sv = [svals[v % len(svals)] for v in range(d)]
        extra = max(sv)
        bases[i] = bases[i].astype(np.result_type(bases[i], np.float64))
        for v in range(d):
            sel = tuple(v if lab == ix else slice(None) for lab in inputs[i])
            bases[i][sel] = bases[i][sel] * 10.0 ** (sv[v] - extra)
    # the SAME array object handed over for several tensors (a network built
    # from a few repeated tensors): tensor j takes the array - and the decade -
    # of the first earlier tensor of equal shape
    rep = list(range(n))
    spec_scales = list(spec["scales"])
    if spec.get("share"):
        special = set()
        if ps and removed:
            special.add(i)
        if nzero:
            special = set(range(n))  # (planes were zeroed in place: keep all distinct)
        for j in range(n):
            for i0 in range(j):
                if rep[i0] == i0 and i0 not in special and j not in special and bases[i0].shape == bases[j].shape and bases[j].ndim > 0:
                    rep[j] = i0
                    break
        bases = [bases[rep[j]] for j in range(n)]
        spec_scales = [spec_scales[rep[j]] for j in range(n)]
    absb = [np.abs(b) for b in bases]
    R = ref.dense_ref(inputs, output, sizes, bases)
    M = float(np.max(ref.dense_ref(inputs, output, sizes, absb)))
    S = sum(spec_scales) + extra
    cls = [f"api={spec['api']}", f"dtype={spec['dtype']}"]
    if any(rep[j] != j for j in range(n)):
        cls.append("shared_array_objects")
    if check_zero:
        cls.append("check_zero")
    if nzero:
        cls.append("zero_slices")
    if ps and removed:
        cls.append("slices_of_different_decades")
    if not np.any(R != 0):
        return Outcome([], False, cls + ["zero_result_skipped"])
    scales = list(spec_scales)
    if ps and removed:
        scales[i] += extra
    if single:
        # float32 / complex64 operands: decades limited to what the type holds
        # (a pairwise product of two operands must still fit: |decade| <= 15)
        scales = [max(-15, min(15, s_)) for s_ in spec_scales]
        S = sum(scales)
        arrays = [(b * 10.0 ** s_).astype(np.complex64 if base_kind == "c" else np.float32) for b, s_ in zip(bases, scales)]
        cls.append("single_precision")
    else:
        arrays = [b * 10.0 ** s for b, s in zip(bases, scales)]
    # (shared tensors are one object, not equal copies)
    arrays = [arrays[rep[j]] for j in range(n)]
    out_shape = tuple(sizes[ix] for ix in output)
    kw = {"strip_exponent": True}
    api = spec["api"]
    viol = []

    if api == "tree":
        ok, tree = guarded(
            ctg.ContractionTree.from_path, inputs, output, sizes,
            path=[tuple(p) for p in spec["path"]],
        )
        if not ok:
            return Outcome([f"from_path raised {tree}"], False, ["error"])
        for ix, p in removed:
            tree.remove_ind_(ix, project=p)
        k2 = dict(kw, prefer_einsum=spec["prefer_einsum"])
        if spec["impl"]:
            k2["implementation"] = spec["impl"]
        if spec.get("warm_first"):
            warm = [np.abs(a) + 1 for a in arrays]
            kw_ = {k_: v_ for k_, v_ in k2.items() if k_ != "check_zero"}
            guarded(tree.contract, warm, **kw_)
            cls.append("tree_used_before")
        if check_zero:
            k2["check_zero"] = True
        ok, res = guarded(tree.contract, arrays, **k2)
    elif api == "chunks":
        # the lazily generated output chunks, each with its own exponent,
        # are re-assembled here by their keys
        ok, tree = guarded(
            ctg.ContractionTree.from_path, inputs, output, sizes,
            path=[tuple(p) for p in spec["path"]],
        )
        if not ok:
            return Outcome([f"from_path raised {tree}"], False, ["error"])
        for ix, p in removed:
            tree.remove_ind_(ix, project=p)
        k2 = dict(kw, prefer_einsum=spec["prefer_einsum"])
        if check_zero:
            k2["check_zero"] = True

        def assemble():
            full_m = np.zeros(out_shape, dtype=np.result_type(*arrays))
            es = []
            parts = []
            for chunk, key in tree.gen_output_chunks(arrays, with_key=True, **k2):
                if not (isinstance(chunk, tuple) and len(chunk) == 2):
                    raise AssertionError(
                        f"gen_output_chunks(strip_exponent=True) yielded a {type(chunk).__name__} "
                        f"of length {len(chunk) if hasattr(chunk, '__len__') else '?'} instead of (mantissa, exponent)"
                    )
                parts.append((chunk[0], float(chunk[1]), key))
            finite = [e for _, e, _ in parts if math.isfinite(e)]
            emax = max(finite) if finite else 0.0
            for m_, e_, key in parts:
                sel = tuple(key[ix] if ix in key else slice(None) for ix in output)
                if e_ == float("-inf"):
                    full_m[sel] = 0
                else:
                    full_m[sel] = np.asarray(m_) * 10.0 ** (e_ - emax)
            return full_m, emax

        ok, res = guarded(assemble)
    elif api == "array_contract":
        k2 = dict(kw, prefer_einsum=spec["prefer_einsum"], cache_expression=False)
        ok, res = guarded(
            ctg.array_contract, arrays, inputs, output,
            optimize=tuple(tuple(p) for p in spec["path"]), **k2,
        )
    elif api == "einsum":
        eq = ",".join("".join(t) for t in inputs) + "->" + "".join(output)
        ok, res = guarded(
            ctg.einsum, eq, *arrays, optimize=tuple(tuple(p) for p in spec["path"]),
            cache_expression=False, **kw,
        )
    else:
        ok, res = guarded(ctg.array_contract, arrays, inputs, output, cache_expression=False, **kw)

    what = f"{api}(strip_exponent=True), scales sum {S}"
    if not ok:
        viol.append(f"{what} raised {res}")
    elif not (isinstance(res, tuple) and len(res) == 2):
        viol.append(f"{what} did not return (mantissa, exponent)")
    else:
        m, e = res
        m = np.asarray(m)
        try:
            e = float(e)
        except Exception:
            e = float("nan")
        if not np.all(np.isfinite(m)) or not math.isfinite(e):
            viol.append(f"{what}: non-finite mantissa/exponent (exponent={e})")
        elif tuple(m.shape) != out_shape:
            viol.append(f"{what}: mantissa shape {tuple(m.shape)} != declared {out_shape}")
        else:
            d = e - S
            if abs(d) > 300:
                viol.append(f"{what}: exponent {e} is off by {d:.1f} decades from the log-domain reference")
            else:
                val = m * 10.0**d
                err = float(np.max(np.abs(val - R)))
                tol_ = 2e-5 if single else 1e-9
                if not err <= tol_ * M:
                    viol.append(
                        f"{what}: mantissa x 10**exponent differs from the reference by {err:.3g} "
                        f"(tolerance {tol_ * M:.3g})"
                    )
    nontrivial = abs(S) > 300 or bool(removed)
    if abs(S) > 300:
        cls.append("plain_would_overflow")
    if removed:
        cls.append("sliced")
        if any(ix in output for ix, _ in removed):
            cls.append("output_sliced")
    if signed:
        cls.append("signed")
    return Outcome(viol, nontrivial, cls)
