"""C01 - contracting with any tree gives the einsum value, in the declared
axis order (DESIGN.md section 1, C01)."""

import itertools

import numpy as np
from hypothesis import strategies as st

from .. import gen, ref
from ..harness import Outcome, guarded

ID = "C01"
LEVEL = "exploration"
RULE = (
    "Hypothesis draws (network, pairwise path, options): network built label-"
    "centrically (bonds, hyper, repeated, single-tensor labels, scalars, "
    "disconnected parts, size-1 dims, ascii/shuffled/>52-symbol alphabets), "
    "path = uniformly drawn live pairs (all binary trees reachable), options "
    "= order x prefer_einsum x implementation x sort_contraction_indices x "
    "dtype x repeat-contract x entry point (contract, contract_core, "
    "get_contractor) x which object is contracted (the built tree, or a "
    "copy() / pickled clone taken after the original was looked at or not). Oracle: independent dense broadcast-multiply-"
    "sum evaluator, exact equality of integer-valued arrays and of the "
    "shape. Thorough adds ALL (2n-3)!! trees of fixed equations from "
    "tests/test_compute.py (n<=6). Non-trivial = >=3 tensors and (a "
    "non-matrix-product feature: hyper/repeated/single/scalar/disconnected/"
    "size-1/batch label, or a non-default option). Distinct = sha1 of the spec."
)
ASSUMPTIONS = [
    "numpy backend only",
    "single-character labels (tree.get_inds joins labels into a str)",
    "dense reference bounded to ~1e6 summed terms; integer-valued arrays so equality is exact",
]

ORDERS = [None, "dfs", "surface_order", "len", "table"]
IMPLS = [None, "cotengra", "autoray", "rec"]


def options():
    return st.fixed_dictionaries(
        {
            "order": st.sampled_from(ORDERS),
            "table": st.lists(st.integers(0, 3), min_size=1, max_size=6),
            "prefer_einsum": st.booleans(),
            "impl": st.sampled_from(IMPLS),
            "sort": st.one_of(
                st.none(),
                st.fixed_dictionaries(
                    {
                        "priority": st.sampled_from(
                            ["flops", "size", "root", "leaves"]
                        ),
                        "make_output_contig": st.booleans(),
                        "make_contracted_contig": st.booleans(),
                        "reset": st.booleans(),
                    }
                ),
            ),
            "twice": st.booleans(),
            "dtype": st.sampled_from(["f", "c"]),
            "autojit": st.sampled_from([None] * 19 + [True]),
            "backend": st.sampled_from([None, None, "numpy"]),
            "entry": st.sampled_from(["contract", "contract", "contract_core", "get_contractor"]),
            # which tree object is contracted: the built one, or a copy / pickled
            # clone of it taken after the original was (or was not) looked at
            "derive": st.sampled_from([None, None, None, "copy", "pickle"]),
            "touch": st.sampled_from([None, "stats", "contract", "preprocessing"]),
        }
    )


@st.composite
def cases(draw, max_n):
    net = draw(gen.networks(min_n=2, max_n=max_n))
    path = draw(gen.linear_paths(len(net["inputs"])))
    return {
        "net": net,
        "path": path,
        "opts": draw(options()),
        "aseed": draw(st.integers(0, 2**16)),
    }


@st.composite
def chain_cases(draw):
    """Very tall trees: a matrix product chain v-M-M-...-M-v of hundreds of
    tensors contracted sequentially (tree height n-1).  The matrices are 0/1
    matrices with at most one 1 per row, so the exact product stays 0/1."""
    # (beyond 740 labels the canonical symbols leave the contiguous blocks)
    n = draw(st.sampled_from([40, 120, 300, 520, 700, 950, 950]))
    return {
        "kind": "chain",
        "n": n,
        "mats": draw(st.lists(st.integers(0, 5), min_size=8, max_size=8)),
        "direction": draw(st.sampled_from(["left", "right", "middle_out"])),
        "sort": draw(st.sampled_from([None, "flops", "size", "root", "leaves"])),
        "order": draw(st.sampled_from([None, "dfs", "surface_order"])),
        "prefer_einsum": draw(st.booleans()),
        "entry": draw(st.sampled_from(["tree", "tree", "array_contract"])),
    }


def strategy(tier, sub=None):
    return st.integers(0, 39).flatmap(
        lambda i: chain_cases() if i == 0 else st.one_of(cases(6), cases(6), cases(12))
    )


def budget(tier, sub=None):
    return {"examples": 24000 if tier == "quick" else 400000, "shards": 16}


def make_order(opts):
    o = opts["order"]
    if o == "len":
        return len
    if o == "table":
        table = list(opts["table"])
        return lambda node: table[(min(node) + 3 * len(node)) % len(table)]
    return o


def rec_impl(log):
    def _tensordot(a, b, axes):
        out = np.tensordot(a, b, axes)
        log.append(("tensordot", out.shape))
        return out

    def _einsum(eq, *xs):
        out = np.einsum(eq, *xs)
        log.append(("einsum1" if len(xs) == 1 else "einsum", out.shape))
        return out

    # Contractor unpacks ``_einsum, _tensordot = implementation``
    return (_einsum, _tensordot)


def contract_kwargs(opts, log=None):
    kw = {"order": make_order(opts), "prefer_einsum": opts["prefer_einsum"]}
    impl = opts["impl"]
    if impl == "rec":
        kw["implementation"] = rec_impl(log if log is not None else [])
    elif impl is not None:
        kw["implementation"] = impl
    return kw


def compare(got, expect, out_shape, what):
    if isinstance(got, tuple):
        return [f"{what}: returned a tuple"]
    got = np.asarray(got)
    if tuple(got.shape) != tuple(out_shape):
        return [f"{what}: shape {tuple(got.shape)} != declared {tuple(out_shape)}"]
    if not np.array_equal(got, expect):
        return [
            f"{what}: values differ from dense reference (max abs err "
            f"{float(np.max(np.abs(got - expect))):.3g})"
        ]
    return []


MATS = [
    [[1, 0], [0, 1]], [[0, 1], [1, 0]], [[1, 0], [0, 0]], [[0, 1], [0, 0]], [[0, 0], [0, 1]], [[1, 0], [1, 0]],
]


def run_chain(spec):
    import cotengra as ctg

    n = spec["n"]
    labs = [chr(0x4E00 + i) for i in range(n - 1)]
    inputs = [(labs[0],)] + [(labs[i], labs[i + 1]) for i in range(n - 2)] + [(labs[n - 2],)]
    sizes = {ix: 2 for ix in labs}
    mats = spec["mats"]
    arrays = [np.array([1.0, 1.0])]
    for i in range(n - 2):
        arrays.append(np.array(MATS[mats[i % len(mats)] % len(MATS)], dtype=float))
    arrays.append(np.array([1.0, 0.0]) if mats[0] % 2 else np.array([1.0, 1.0]))
    v = arrays[0]
    for a in arrays[1:-1]:
        v = v @ a
    expect = np.asarray(v @ arrays[-1])
    if spec["direction"] == "left":
        ssa = [(0, 1)] + [(n + i, i + 2) for i in range(n - 2)]
    elif spec["direction"] == "right":
        ssa = [(n - 2, n - 1)] + [(n + i, n - 3 - i) for i in range(n - 2)]
    else:
        m = n // 2
        ssa, cur, nxt, lo, hi = [(m - 1, m)], n, n + 1, m - 2, m + 1
        while lo >= 0 or hi < n:
            if lo >= 0:
                ssa.append((cur, lo)); cur, nxt, lo = nxt, nxt + 1, lo - 1
            if hi < n:
                ssa.append((cur, hi)); cur, nxt, hi = nxt, nxt + 1, hi + 1
    viol = []

    def go():
        tree = ctg.ContractionTree.from_path(inputs, (), sizes, ssa_path=ssa)
        if spec["entry"] == "array_contract":
            return ctg.array_contract(
                arrays, inputs, (), optimize=tree.get_path(),
                sort_contraction_indices=spec["sort"] is not None, cache_expression=False,
            )
        if spec["sort"] is not None:
            tree.sort_contraction_indices(priority=spec["sort"])
        return tree.contract(arrays, order=spec["order"], prefer_einsum=spec["prefer_einsum"])

    ok, got = guarded(go)
    what = f"chain of {n} tensors contracted {spec['direction']}, sort={spec['sort']}, entry={spec['entry']}"
    if not ok:
        viol.append(f"{what}: raised {got}")
    else:
        viol += compare(got, expect, (), what)
    return Outcome(viol, True, ["kind=chain", f"n={n}", f"sort={spec['sort']}", f"direction={spec['direction']}"])


def run_case(spec, sub=None):
    import cotengra as ctg

    if spec.get("kind") == "chain":
        return run_chain(spec)
    net, opts = spec["net"], spec["opts"]
    inputs = [tuple(t) for t in net["inputs"]]
    output = tuple(net["output"])
    sizes = dict(net["sizes"])
    n = len(inputs)
    arrays = ref.make_arrays(inputs, sizes, spec["aseed"], opts["dtype"])
    expect = ref.dense_ref(inputs, output, sizes, arrays)
    out_shape = tuple(sizes[ix] for ix in output)

    viol = []
    ok, tree = guarded(
        ctg.ContractionTree.from_path,
        inputs,
        output,
        sizes,
        path=[tuple(p) for p in spec["path"]],
    )
    if not ok:
        return Outcome([f"from_path raised {tree}"], False, ["error"])
    if opts["sort"] is not None:
        ok, r = guarded(tree.sort_contraction_indices, **opts["sort"])
        if not ok:
            viol.append(f"sort_contraction_indices raised {r}")
    if opts.get("derive"):
        touch = opts.get("touch")
        if touch == "stats":
            guarded(tree.contract_stats)
        elif touch == "contract":
            guarded(tree.contract, arrays)
        elif touch == "preprocessing":
            guarded(tree.has_preprocessing)
        if opts["derive"] == "copy":
            ok, t2 = guarded(tree.copy)
        else:
            import pickle

            ok, t2 = guarded(lambda: pickle.loads(pickle.dumps(tree)))
        if not ok:
            return Outcome([f"{opts['derive']} of the tree raised {t2}"], False, ["error"])
        tree = t2
    reps = 2 if opts["twice"] else 1
    entry = opts.get("entry", "contract")
    for k in range(reps):
        kw = contract_kwargs(opts)
        if opts.get("autojit") and opts["impl"] != "rec":
            # (a hand written numpy implementation cannot be traced by autoray)
            kw["autojit"] = True
        if entry == "get_contractor":
            # the reusable compiled function (no slicing in this check)
            ok, got = guarded(lambda: tree.get_contractor(**kw)(*arrays, backend=opts.get("backend")))
        else:
            if opts.get("backend"):
                kw["backend"] = opts["backend"]
            fn = tree.contract_core if entry == "contract_core" else tree.contract
            ok, got = guarded(fn, arrays, **kw)
        if not ok:
            viol.append(f"contract raised {got}")
            break
        viol += compare(got, expect, out_shape, f"contract#{k}")
        if viol:
            break

    cls = gen.net_classes(net)
    special = cls & {
        "hyper", "repeat", "scalar", "single_summed", "single_output",
        "disconnected", "size1", "batch_output", "on_all",
    }
    nondefault = (
        opts["order"] not in (None, "dfs")
        or opts["prefer_einsum"]
        or opts["impl"] is not None
        or opts["sort"] is not None
    )
    nontrivial = n >= 3 and (bool(special) or nondefault)
    tags = sorted(cls) + [
        f"order={opts['order']}",
        f"impl={opts['impl']}",
        f"sort={None if opts['sort'] is None else opts['sort']['priority']}",
        f"prefer_einsum={opts['prefer_einsum']}",
        f"dtype={opts['dtype']}",
        f"entry={entry}",
    ]
    if opts.get("autojit"):
        tags.append("autojit")
    if opts.get("derive"):
        tags.append(f"derive={opts['derive']}/touch={opts.get('touch')}")
    return Outcome(viol, nontrivial, tags)


# ---------------------------------------------------------------------------
# thorough: all trees of the fixed equations in tests/test_compute.py
# ---------------------------------------------------------------------------


def fixed_equations(max_n=6):
    import os
    import re

    from ..harness import repo_root

    path = os.path.join(repo_root(), "tests", "test_compute.py")
    eqs = []
    try:
        with open(path) as f:
            src = f.read()
        for m in re.finditer(r'"([A-Za-z,]*->[A-Za-z]*)"', src):
            eqs.append(m.group(1))
    except OSError:
        pass
    out = []
    for eq in dict.fromkeys(eqs):
        lhs, rhs = eq.split("->")
        terms = lhs.split(",")
        if 2 <= len(terms) <= max_n and set(rhs) <= set(lhs):
            out.append(eq)
    return out


def exhaustive_specs(shard, nshards):
    k = 0
    optsets = [
        {"order": None, "table": [0], "prefer_einsum": False, "impl": None, "sort": None, "twice": False, "dtype": "f"},
        {"order": "len", "table": [0], "prefer_einsum": True, "impl": "autoray", "sort": None, "twice": False, "dtype": "f"},
        {"order": "table", "table": [2, 0, 1], "prefer_einsum": False, "impl": "cotengra",
         "sort": {"priority": "flops", "make_output_contig": True, "make_contracted_contig": True, "reset": True},
         "twice": True, "dtype": "c"},
    ]
    for eq in fixed_equations():
        lhs, rhs = eq.split("->")
        inputs = [list(t) for t in lhs.split(",")]
        labels = list(dict.fromkeys(ix for t in inputs for ix in t))
        sizes = {ix: 2 + (i % 2) for i, ix in enumerate(labels)}
        sizes = gen.clamp_sizes(labels, sizes, 2**18)
        n = len(inputs)
        for ssa in ref.all_binary_trees(n):
            for oi, o in enumerate(optsets):
                k += 1
                if k % nshards != shard:
                    continue
                yield {
                    "net": {"inputs": inputs, "output": list(rhs), "sizes": sizes},
                    "ssa": [list(p) for p in ssa],
                    "opts": o,
                    "aseed": 7,
                }


def run_case_ssa(spec):
    """Same as run_case but the tree is given as an SSA path."""
    import cotengra as ctg

    spec = dict(spec)
    n = len(spec["net"]["inputs"])
    # convert ssa -> linear with my own converter
    live = list(range(n))
    path = []
    nxt = n
    for a, b in spec["ssa"]:
        i, j = sorted((live.index(a), live.index(b)))
        path.append([i, j])
        live.pop(j)
        live.pop(i)
        live.append(nxt)
        nxt += 1
    spec["path"] = path
    return run_case(spec)


def replay(spec):
    if "ssa" in spec:
        return run_case_ssa(spec)
    return run_case(spec)


def shard_main(tier, seed, shard, nshards, state):
    import sys

    from .. import harness

    mod = sys.modules[__name__]
    harness.run_hypothesis_shard(mod, tier, seed, shard, nshards, state)
    if tier == "thorough" and state.fail is None:
        for spec in exhaustive_specs(shard, nshards):
            out = run_case_ssa(spec)
            out.classes = list(out.classes) + ["exhaustive_tree_sweep"]
            state.record(spec, out)
            if out.violations:
                state.fail = (spec, out.violations)
                return


def coverage_extra(tier, stats):
    if tier == "thorough":
        return {
            "exhaustive_subspace": "all (2n-3)!! trees x 3 option sets for every fixed equation of tests/test_compute.py with n<=6 (class exhaustive_tree_sweep)"
        }
    return {}
