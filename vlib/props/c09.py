"""C09 - the 'optimal' pathfinder really is optimal."""

import math

from hypothesis import strategies as st

from .. import gen, ref
from ..harness import Outcome, guarded

ID = "C09"
LEVEL = "exploration"
RULE = (
    "Hypothesis draws connected networks with nothing to pre-simplify, by "
    "construction (spanning bonds + extra bonds, hyper labels on <n tensors, "
    "dangling output labels, batch outputs; distinct non-empty label sets; "
    "sizes 1..5), n=3..6 and in a tenth of the cases 7 (thorough: ..7 throughout), x objective in {flops,size,write,"
    "max,combo,combo-k,limit,limit-k} x search_outer x initial cost_cap in "
    "{2, small, exactly the optimum, huge}, through optimize_optimal and "
    "OptimalOptimizer. Oracle: ALL (2n-3)!! trees are enumerated and scored "
    "with the independent CostRef; the returned path, scored by CostRef (not "
    "by cotengra), must equal the minimum over all trees (search_outer) or "
    "over all outer-product-free trees (and then contain no outer product). "
    "Non-trivial = optimum differs from the value of the first-enumerated "
    "(left-deep) tree or the outer/non-outer optima differ. A tenth of the "
    "quick cases (a fifth in thorough) have 8..10 (..12) tensors: there the "
    "reference is an independent dynamic programme over subsets of tensors "
    "(all objectives are sums or maxima of per-step terms depending on the two "
    "subsets only), cross-checked against the enumeration on every case with "
    "n <= 6. Distinct = "
    "sha1(spec)."
)
ASSUMPTIONS = ["exhaustive enumeration bounds n <= 7; n = 8..10 (thorough: ..12) are judged by an independent subset dynamic programme, itself cross-checked against the enumeration on every case with n <= 6"]

OBJ = ["flops", "size", "write", "max", "combo", "combo-7", "limit", "limit-3"]
# step budget for the cases that are run under the deterministic step counter
# (the largest count seen on the repaired tree is reported as max_fuel)
FUEL_LIMIT = 50_000_000
# (a case that exhausts the budget costs half a minute: not shrunk)
NO_SHRINK = "did not return within"


@st.composite
def simple_networks(draw, max_n):
    n = draw(st.integers(3, max_n))
    terms = [[] for _ in range(n)]
    labels = []
    out = []

    def new_label():
        ix = gen.ASCII[len(labels)]
        labels.append(ix)
        return ix

    for i in range(1, n):
        # tensor i joins the part built so far through a fresh bond to an
        # earlier tensor, or (a third of the time) only by also carrying a label
        # that is there already - which makes that label a hyper index and may
        # leave tensor i with no ordinary bond at all
        if labels and draw(st.integers(0, 2)) == 0:
            ix = draw(st.sampled_from(labels))
            if sum(ix in t for t in terms) < n - 1:
                terms[i].append(ix)
                continue
        j = draw(st.integers(0, i - 1))
        ix = new_label()
        terms[i].append(ix)
        terms[j].append(ix)
    extra = draw(st.integers(0, n))
    for _ in range(extra):
        kind = draw(st.sampled_from(["bond", "bond", "hyper", "dangle"]))
        if kind == "bond":
            a = draw(st.integers(0, n - 1))
            b = draw(st.integers(0, n - 2))
            if b >= a:
                b += 1
            ix = new_label()
            terms[a].append(ix)
            terms[b].append(ix)
        elif kind == "hyper" and n >= 4:
            k = draw(st.integers(3, n - 1))
            where = draw(st.lists(st.integers(0, n - 1), min_size=k, max_size=k, unique=True))
            ix = new_label()
            for t in where:
                terms[t].append(ix)
        else:
            a = draw(st.integers(0, n - 1))
            ix = new_label()
            terms[a].append(ix)
            out.append(ix)
    # distinct label sets
    seen = {}
    for i in range(n):
        key = frozenset(terms[i])
        while key in seen:
            ix = new_label()
            terms[i].append(ix)
            out.append(ix)
            key = frozenset(terms[i])
        seen[key] = i
    # batch outputs
    for ix in labels:
        if ix not in out and draw(st.integers(0, 5)) == 0:
            out.append(ix)
    inputs = [list(draw(st.permutations(t))) for t in terms]
    out = list(draw(st.permutations(out))) if out else []
    # (size-1 labels are legitimate: a bond of dimension 1 still connects)
    sizes = {ix: draw(st.sampled_from([1, 2, 2, 3, 3, 4, 5])) for ix in labels}
    return {"inputs": inputs, "output": out, "sizes": sizes}


@st.composite
def cases(draw, max_n):
    net = draw(simple_networks(max_n))
    return {
        "net": net,
        "minimize": draw(st.sampled_from(OBJ)),
        "search_outer": draw(st.booleans()),
        "cap": draw(st.sampled_from(["2", "small", "opt", "huge", "zero"])),
        # the type that carries the cap (a fixed width integer must not wrap)
        "cap_type": draw(st.sampled_from(["int", "int", "int", "numpy32", "float"])),
        "via": draw(st.sampled_from(["function", "class_call", "class_ssa"])),
        # sizes as python ints or numpy integers; 'shift' makes the counts
        # astronomically large (beyond 64 bits) - the optimum must still be found
        "size_type": draw(st.sampled_from(["int", "int", "numpy"])),
        "shift": draw(st.sampled_from([0, 0, 0, 20])),
    }


@st.composite
def big_cases(draw, lo, hi):
    """8..12 tensors: beyond exhaustive enumeration, judged by the independent
    subset dynamic programme of this module (``dp_optimum``)."""
    c = draw(cases(hi))
    tries = 0
    while len(c["net"]["inputs"]) < lo and tries < 3:
        c = draw(cases(hi))
        tries += 1
    c["oracle"] = "dp"
    return c


def strategy(tier, sub=None):
    if tier == "thorough":
        return st.integers(0, 9).flatmap(lambda i: big_cases(8, 12) if i < 2 else cases(7))
    # quick: mostly n <= 6, a tenth of the cases may have 7 tensors (10 395
    # trees), another tenth 8..10 tensors (subset DP as the reference)
    return st.integers(0, 9).flatmap(lambda i: cases(7) if i == 0 else big_cases(8, 10) if i == 1 else cases(6))


def budget(tier, sub=None):
    return {"examples": 8000 if tier == "quick" else 60000, "shards": 16}


class Scorer:
    def __init__(self, inputs, output, sizes):
        self.cr = ref.CostRef(inputs, output, sizes)
        self._legs = {}

    def legs(self, S):
        if S not in self._legs:
            self._legs[S] = frozenset(self.cr.legs(S))
        return self._legs[S]

    def step(self, L, R):
        lL, lR = self.legs(L), self.legs(R)
        flops = math.prod(self.cr.sizes[ix] for ix in lL | lR)
        size = math.prod(self.cr.sizes[ix] for ix in self.legs(L | R))
        outer = not (lL & lR)
        return flops, size, outer

    def score(self, steps, minimize):
        which, _, k = minimize.partition("-")
        k = int(k) if k else 64
        tot = 0
        has_outer = False
        for P, L, R in steps:
            f, s, o = self.step(L, R)
            has_outer |= o
            if which == "flops":
                tot += f
            elif which == "size":
                tot = max(tot, s)
            elif which == "write":
                tot += s
            elif which == "max":
                tot = max(tot, f)
            elif which == "combo":
                tot += f + k * s
            elif which == "limit":
                tot += max(f, k * s)
            else:
                raise ValueError(which)
        return tot, has_outer


def dp_optimum(sc, n, minimize):
    """Independent reference beyond enumeration: dynamic programme over subsets
    of tensors. ``best[S]`` = least cost of contracting the tensors of S into
    one, over every binary tree on S (all objectives here are monotone in the
    costs of the two halves: sums or maxima of per-step terms that depend on
    the two subsets only). Returns (optimum over all trees, optimum over
    outer-product-free trees or None)."""
    which, _, k = minimize.partition("-")
    k = int(k) if k else 64
    additive = which in ("flops", "write", "combo", "limit")

    def term(f, s_):
        return {"flops": f, "size": s_, "write": s_, "max": f, "combo": f + k * s_, "limit": max(f, k * s_)}[which]

    full = (1 << n) - 1
    sets = {m: frozenset(i for i in range(n) if m >> i & 1) for m in range(1, full + 1)}
    best_all = {1 << i: 0 for i in range(n)}
    best_no = {1 << i: 0 for i in range(n)}
    by_size = sorted(range(1, full + 1), key=lambda m: bin(m).count("1"))
    for m in by_size:
        if m & (m - 1) == 0:
            continue
        low = m & -m
        ba = bn = None
        # every unordered split {a, b} of m: a contains the lowest tensor
        rest = m ^ low
        sub = rest
        while True:
            a = low | (rest ^ sub)  # a runs over low + every subset of rest
            b = m ^ a
            if b:
                f, s_, outer = sc.step(sets[a], sets[b])
                t = term(f, s_)
                va, vb = best_all[a], best_all[b]
                v = va + vb + t if additive else max(va, vb, t)
                if ba is None or v < ba:
                    ba = v
                if not outer:
                    na, nb = best_no.get(a), best_no.get(b)
                    if na is not None and nb is not None:
                        v = na + nb + t if additive else max(na, nb, t)
                        if bn is None or v < bn:
                            bn = v
            if sub == 0:
                break
            sub = (sub - 1) & rest
        best_all[m] = ba
        if bn is not None:
            best_no[m] = bn
    return best_all[full], best_no.get(full)


def run_case(spec, sub=None):
    from cotengra.pathfinders import path_basic as pb

    net = spec["net"]
    inputs = [tuple(t) for t in net["inputs"]]
    output = tuple(net["output"])
    sizes = dict(net["sizes"])
    if spec.get("shift"):
        sizes = {ix: d << spec["shift"] for ix, d in sizes.items()}
    n = len(inputs)
    minimize = spec["minimize"]
    sc = Scorer(inputs, output, sizes)  # (python integers: exact)
    given = sizes
    if spec.get("size_type") == "numpy":
        import numpy as _np

        given = {ix: _np.int64(d) for ix, d in sizes.items()}

    best_all = best_no = None
    first = None
    use_dp = spec.get("oracle") == "dp" and n >= 8
    if use_dp:
        best_all, best_no = dp_optimum(sc, n, minimize)
        # (non-triviality is judged against the left-deep tree, as below)
        first, _ = sc.score(ref.ssa_nodes([(0, 1)] + [(n + i, i + 2) for i in range(n - 2)], n), minimize)
    else:
        for ssa in ref.all_binary_trees(n):
            steps = ref.ssa_nodes(ssa, n)
            v, has_outer = sc.score(steps, minimize)
            if first is None:
                first = v
            if best_all is None or v < best_all:
                best_all = v
            if not has_outer and (best_no is None or v < best_no):
                best_no = v
        if n <= 6:
            # the two references must agree wherever both apply
            dp_all, dp_no = dp_optimum(sc, n, minimize)
            if (dp_all, dp_no) != (best_all, best_no):
                from ..harness import HarnessError

                raise HarnessError(f"subset DP {(dp_all, dp_no)} disagrees with enumeration {(best_all, best_no)}")
    if best_no is None:
        # cannot happen for a connected network
        from ..harness import HarnessError

        raise HarnessError("no outer-product-free tree for a connected network")
    want = best_all if spec["search_outer"] else best_no

    cap_kind, cap_type = spec["cap"], spec.get("cap_type")
    if n > 10:
        # (the step-counted cap kinds are kept to n <= 10, where the counter's
        # budget is 15 times the largest count seen)
        cap_kind = "2" if cap_kind == "zero" else cap_kind
        cap_type = "int" if cap_type == "numpy32" else cap_type
    cap = {"2": 2, "small": 10, "opt": want, "huge": 10**30, "zero": 0}[cap_kind]
    if cap_type == "numpy32" and cap < 2**31:
        import numpy as _np

        cap = _np.int32(cap)
    elif cap_type == "float":
        cap = float(cap)
    kw = dict(minimize=minimize, cost_cap=cap, search_outer=spec["search_outer"])
    if spec["via"] == "function":
        call = lambda: pb.optimize_optimal(inputs, output, given, use_ssa=True, **kw)  # noqa: E731
        is_ssa = True
    elif spec["via"] == "class_ssa":
        call = lambda: pb.OptimalOptimizer(**kw).ssa_path(inputs, output, given)  # noqa: E731
        is_ssa = True
    else:
        call = lambda: pb.OptimalOptimizer(**kw)(inputs, output, given)  # noqa: E731
        is_ssa = False
    viol = []
    fuel_used = 0
    if cap_kind == "zero" or cap_type == "numpy32":
        # caps that once kept the doubling from getting anywhere: "did not
        # return" is judged deterministically, by counted steps (DESIGN 0.7)
        from ..fuel import Fuel, FuelExhausted

        fuel = Fuel(FUEL_LIMIT)
        try:
            with fuel:
                ok, path = guarded(call)
        except FuelExhausted:
            ok, path = True, None
            viol.append(
                f"optimal({minimize}, search_outer={spec['search_outer']}, cost_cap={cap!r}) did not return within "
                f"{FUEL_LIMIT} steps (a python int cap of the same value returns at once)"
            )
        fuel_used = fuel.used
    else:
        ok, path = guarded(call)
    if viol:
        pass
    elif not ok:
        viol.append(f"optimal({minimize}, search_outer={spec['search_outer']}, cost_cap={cap}) raised {path}")
    else:
        path = [tuple(p) for p in path]
        if not is_ssa:
            msg = ref.check_path_valid(path, n)
            if msg:
                viol.append(f"returned path invalid: {msg}")
            else:
                path = ref.linear_to_ssa_ref(path, n)
        if not viol:
            if any(len(p) != 2 for p in path) or len(path) != n - 1:
                viol.append(f"returned path {path} is not a complete pairwise path (nothing to pre-simplify here)")
            else:
                steps = ref.ssa_nodes(path, n)
                got, has_outer = sc.score(steps, minimize)
                if got != want:
                    viol.append(
                        f"optimal({minimize}, search_outer={spec['search_outer']}, cost_cap={cap}) "
                        f"returned a path of cost {got}; {'subset-DP' if use_dp else 'exhaustive'} minimum over "
                        f"{'all' if spec['search_outer'] else 'outer-product-free'} trees is {want}"
                    )
                if not spec["search_outer"] and has_outer:
                    viol.append("search_outer=False returned a path with an outer product")
    nontrivial = (want != first) or (best_all != best_no)
    cls = [f"n={n}", f"minimize={minimize.split('-')[0]}", f"search_outer={spec['search_outer']}", f"cap={spec['cap']}", f"cap_type={spec.get('cap_type', 'int')}"]
    if best_all != best_no:
        cls.append("outer_product_helps")
    if spec.get("shift"):
        cls.append(f"counts_beyond_64_bits:{spec.get('size_type', 'int')}")
    elif spec.get("size_type") == "numpy":
        cls.append("numpy_sizes")
    if any(ix for ix in sizes if sum(ix in t for t in inputs) >= 3):
        cls.append("hyper")
    if use_dp:
        cls.append("reference=subset_dp")
    return Outcome(viol, nontrivial, cls, {"trees_enumerated": 0 if use_dp else math.prod(range(1, 2 * n - 2, 2)), "max_fuel": fuel_used})
