"""C04 - incrementally tracked costs equal a from-scratch rebuild after any history."""

from .. import treemachine
from ..harness import Outcome

ID = "C04"
LEVEL = "exploration"
RULE = (
    "Same history machine as C02 (network + random tree + <=10 ops over "
    "reconfigure/forest/anneal/temper/remove(slice|project)/restore/unslice/"
    "slice/slice_and_reconfigure(_forest)/sort/copy/contract/queries, plus a "
    "dedicated 'slice k labels, unslice them in a drawn permutation' op). "
    "Oracle after each observed step: (i) every figure (contract_stats, "
    "total_flops/write, max_size, peak, combo, limit, multiplicity, sliced "
    "label order and SliceInfo, sliced_inputs, preprocessing map, per-node "
    "legs/involved/size/flops) equals a tree rebuilt from (get_path(), sliced "
    "labels); (ii) the same figures equal the independent CostRef definition; "
    "(iii) slice+unslice restores the snapshot exactly; (iv) originals kept "
    "across copy / inplace=False still report their old figures. Non-trivial = "
    ">=1 reconfigure/anneal op and >=1 slice/unslice op succeeded. Distinct = "
    "sha1(spec)."
)
ASSUMPTIONS = [
    "forest / tempering drivers run serially or on harness-owned in-process pools that "
    "emulate the process-pool (pickle boundary) and scatter-pool (futures) protocols; no real processes",
    "a transformation that raises is counted (classes raised:*), the tree is "
    "restored from a pre-op copy and the history continues: the property "
    "speaks about the state after transformations that complete",
    "numpy backend; single-character labels; <=7 tensors, dims<=4",
]


def strategy(tier, sub=None):
    return treemachine.histories(max_n=7, max_ops=10)


def budget(tier, sub=None):
    return {"examples": 16000 if tier == "quick" else 160000, "shards": 16}


def run_case(spec, sub=None):
    return treemachine.run_history(spec, "cost")
