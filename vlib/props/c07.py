"""C07 - the slice finder's predicted costs are real and its targets are honoured."""

import math

from hypothesis import strategies as st

from .. import gen, ref
from ..harness import Outcome, guarded

ID = "C07"
LEVEL = "exploration"
RULE = (
    "Hypothesis draws (network, random tree, optional prior slicing/"
    "projection, one or two targets among size/slices/overhead with values "
    "around the achievable range, allow_outer in {True,False,'only'}, "
    "objective, temperature, seed, max_repeats), through SliceFinder.search "
    "tree.slice(reslice or not) and tree.slice_and_reconfigure(target_size). Oracle, conditional on an answer being "
    "returned: applying the returned labels to a copy gives max_size == "
    "cost.size, total_flops == cost.total_flops x prior multiplicity, "
    "nslices == cost.nslices x prior multiplicity, and the same figures from "
    "the independent CostRef; every requested target holds on that tree; "
    "forbidden labels are absent; tree.slice postconditions likewise. "
    "Refusals (RuntimeError 'Ran out...', no valid candidate) are counted as "
    "no-answer. Non-trivial = non-empty returned set. Distinct = sha1(spec)."
)
ASSUMPTIONS = [
    "the property is conditional on the search returning; refusals (RuntimeError 'Ran out of valid indices', ValueError for an empty candidate set) are counted (classes no_answer:*) not judged; internal crashes (KeyError, IndexError, TypeError, ...) are reported",
]

MIN = ["flops", "size", "write", "combo", "limit"]
# exception types that are never a refusal
CRASHES = {"KeyError", "IndexError", "AttributeError", "TypeError", "ZeroDivisionError", "UnboundLocalError", "NameError"}


@st.composite
def cases(draw):
    net = draw(gen.networks(min_n=2, max_n=9, max_dim=4, volume_limit=2**40, allow_size1=draw(st.booleans())))
    path = draw(gen.linear_paths(len(net["inputs"])))
    pre = draw(gen.removed_lists(net, max_k=2, max_prod=10**9)) if draw(st.integers(0, 2)) == 0 else []
    kinds = draw(st.lists(st.sampled_from(["size", "slices", "overhead"]), min_size=1, max_size=2, unique=True))
    targets = {}
    for k in kinds:
        if k == "size":
            targets["size_div"] = draw(st.sampled_from([1, 2, 3, 4, 8, 16, 64]))
        elif k == "slices":
            targets["slices"] = draw(st.sampled_from([1, 2, 3, 4, 6, 9, 16]))
        else:
            targets["overhead"] = draw(st.sampled_from([1.0, 1.1, 1.5, 2.0, 4.0, 16.0]))
    return {
        "net": net,
        "path": path,
        "pre": pre,
        "targets": targets,
        "allow_outer": draw(st.sampled_from([True, True, False, "only"])),
        "minimize": draw(st.sampled_from(MIN)),
        "temperature": draw(st.sampled_from([0.0, 0.01, 0.5, 2.0])),
        "seed": draw(st.integers(0, 999)),
        "max_repeats": draw(st.integers(1, 8)),
        "via": draw(st.sampled_from(["finder", "finder", "slice", "reslice", "finder_reuse", "finder_override", "finder_info", "slice_reconf"])),
        # after the search also ask the finder for its k best candidates
        "best_k": draw(st.sampled_from([0, 0, 1, 2, 3, 5])),
        # size_dict carries an entry for a label the network does not use
        "spare_size": draw(st.sampled_from([None, None, None, 2, 3])),
        # for finder_reuse: an earlier query with other targets on the SAME finder
        "first_targets": draw(
            st.fixed_dictionaries(
                {
                    "size_div": st.sampled_from([None, 2, 8, 64]),
                    "slices": st.sampled_from([None, 2, 6]),
                    "overhead": st.sampled_from([None, 1.5, 4.0, 16.0]),
                }
            )
        ),
    }


def strategy(tier, sub=None):
    return cases()


def budget(tier, sub=None):
    return {"examples": 19200 if tier == "quick" else 800000, "shards": 16}


def run_case(spec, sub=None):
    import cotengra as ctg

    net = spec["net"]
    inputs = [tuple(t) for t in net["inputs"]]
    output = tuple(net["output"])
    sizes = dict(net["sizes"])
    viol, cls = [], [f"via={spec['via']}", f"allow_outer={spec['allow_outer']}"]
    if spec.get("spare_size"):
        spare = next(c for c in "ZYXWVUTSRQPONMLKJIHGFEDCBA" if c not in sizes)
        sizes[spare] = spec["spare_size"]
        cls.append("spare_size_dict_entry")

    ok, tree = guarded(
        ctg.ContractionTree.from_path, inputs, output, sizes,
        path=[tuple(p) for p in spec["path"]],
    )
    if not ok:
        return Outcome([f"from_path raised {tree}"], False, ["error"])
    pre = [(ix, p) for ix, p in spec["pre"]]
    for ix, p in pre:
        ok, r = guarded(tree.remove_ind_, ix, project=p)
        if not ok:
            return Outcome([f"remove_ind_ raised {r}"], False, ["error"])
    if pre:
        cls.append("pre_sliced")

    tg = spec["targets"]
    base = tree
    if spec["via"] == "reslice":
        base = tree.unslice_all()
    base_size = base.max_size()
    kw = {}
    if "size_div" in tg:
        kw["target_size"] = max(1, base_size // tg["size_div"])
    if "slices" in tg:
        kw["target_slices"] = tg["slices"]
    if "overhead" in tg:
        kw["target_overhead"] = tg["overhead"]
    cls += [f"target={k}" for k in sorted(kw)]

    old_mult = tree.multiplicity
    old_sliced = [(ix, si.project) for ix, si in tree.sliced_inds.items()]

    def no_answer(res):
        k = res.split(":")[0]
        if k in CRASHES:
            # not a refusal ("ran out of indices", "no candidate meets the
            # targets") but the finder falling over its own bookkeeping: no
            # answer although the question was legitimate. Reported, because a
            # property that is conditional on an answer would otherwise be met
            # vacuously by a finder that crashes.
            return Outcome([f"the slice search crashed instead of answering or refusing: {res}"], False, cls + [f"crash:{k}"])
        return Outcome([], False, cls + [f"no_answer:{k}"])

    if spec["via"] == "finder_override":
        # the finder is built with OTHER targets (those of ``first_targets``)
        # and the targets of this query are given to search() only
        def search():
            ft = spec["first_targets"]
            k1 = {}
            if ft["size_div"]:
                k1["target_size"] = max(1, base_size // ft["size_div"])
            if ft["slices"]:
                k1["target_slices"] = ft["slices"]
            if ft["overhead"]:
                k1["target_overhead"] = ft["overhead"]
            if not k1:
                k1["target_slices"] = 1
            sf = ctg.slicer.SliceFinder(
                tree, allow_outer=spec["allow_outer"], minimize=spec["minimize"],
                temperature=spec["temperature"], seed=spec["seed"], **k1,
            )
            # (targets not named in the call keep the constructor's value)
            full = {"target_size": None, "target_slices": None, "target_overhead": None}
            full.update(kw)
            return sf.search(spec["max_repeats"], **full)

    finder_box = {}
    via_info = spec["via"] == "finder_info"
    if via_info:
        # the other documented entry point: a finder built from an
        # opt_einsum.PathInfo of the same path (no prior slicing there)
        import opt_einsum as oe

        if pre or any(ord(ix) > 127 for ix in sizes) or not sizes:
            via_info = False
        else:
            eq = ",".join("".join(t) for t in inputs) + "->" + "".join(output)
            shp = [tuple(sizes[ix] for ix in t) for t in inputs]
            try:
                _, info = oe.contract_path(eq, *shp, shapes=True, optimize=[tuple(p_) for p_ in spec["path"]])
            except Exception:
                via_info = False
        if via_info:
            cls.append("from_pathinfo")

    if spec["via"] in ("finder", "finder_reuse", "finder_override", "finder_info"):
        _override = search if spec["via"] == "finder_override" else None

        def search():
            if _override is not None:
                return _override()
            sf = ctg.slicer.SliceFinder(
                info if via_info else tree, allow_outer=spec["allow_outer"], minimize=spec["minimize"],
                temperature=spec["temperature"], seed=spec["seed"], **kw,
            )
            if spec["via"] == "finder_reuse":
                # the same finder answered another query first (its cache of
                # candidate slicings is shared between queries)
                ft = spec["first_targets"]
                k1 = {}
                if ft["size_div"]:
                    k1["target_size"] = max(1, base_size // ft["size_div"])
                if ft["slices"]:
                    k1["target_slices"] = ft["slices"]
                if ft["overhead"]:
                    k1["target_overhead"] = ft["overhead"]
                if k1:
                    try:
                        sf.search(spec["max_repeats"], **k1)
                    except Exception:
                        pass
                return sf.search(spec["max_repeats"], **kw)
            return sf.search(spec["max_repeats"])

        _SF = ctg.slicer.SliceFinder

        class _Capture(_SF):
            def __init__(self, *a, **k):
                super().__init__(*a, **k)
                finder_box["sf"] = self

        ctg.slicer.SliceFinder = _Capture
        try:
            ok, res = guarded(search)
        finally:
            ctg.slicer.SliceFinder = _SF
        if not ok:
            return no_answer(res)
        ix_sl, cost = res
        ix_sl = sorted(ix_sl)
        # the k best candidates: each must keep the finder's promises too
        if spec.get("best_k") and "sf" in finder_box:
            # (the targets in force are those of the last search call)
            eff = dict(kw) if spec["via"] != "finder" and spec["via"] != "finder_info" else {}
            okk, cands = guarded(finder_box["sf"].best, k=spec["best_k"], **eff)
            if okk:
                cls.append("best_k")
                for cix, ccost in cands:
                    cix = sorted(cix)
                    t3 = tree.copy()
                    good = True
                    for ix in cix:
                        okr, r = guarded(t3.remove_ind_, ix)
                        if not okr:
                            viol.append(f"best(k): returned label {ix!r} cannot be sliced: {r}")
                            good = False
                            break
                    if not good:
                        break
                    pred = (ccost.size, ccost.total_flops * old_mult, ccost.nslices * old_mult)
                    real = (t3.max_size(), t3.total_flops(), t3.nslices)
                    if pred != real:
                        viol.append(f"best(k={spec['best_k']}): predicted {pred} for {cix}, the tree sliced on them has {real}")
                        break
                    if "target_size" in kw and t3.max_size() > kw["target_size"]:
                        viol.append(f"best(k={spec['best_k']}): candidate {cix} has max_size {t3.max_size()} > target_size {kw['target_size']}")
                        break
                    if "target_slices" in kw and t3.nslices < kw["target_slices"] * old_mult:
                        viol.append(f"best(k={spec['best_k']}): candidate {cix} has nslices {t3.nslices} < target_slices {kw['target_slices']} (x{old_mult} prior)")
                        break
                    if "target_overhead" in kw and t3.total_flops() / tree.total_flops() > kw["target_overhead"] * (1 + 1e-12):
                        viol.append(f"best(k={spec['best_k']}): candidate {cix} has overhead {t3.total_flops() / tree.total_flops()} > target_overhead {kw['target_overhead']}")
                        break
                    if spec["allow_outer"] is False and any(ix in output for ix in cix):
                        viol.append(f"best(k): output label in candidate {cix} although allow_outer=False")
                        break
                    if spec["allow_outer"] == "only" and any(ix not in output for ix in cix):
                        viol.append(f"best(k): inner label in candidate {cix} although allow_outer='only'")
                        break
            if viol:
                return Outcome(viol, False, cls)
        t2 = tree.copy()
        for ix in ix_sl:
            ok, r = guarded(t2.remove_ind_, ix)
            if not ok:
                viol.append(f"returned label {ix!r} cannot be sliced: {r}")
                return Outcome(viol, False, cls)
        pred = (cost.size, cost.total_flops * old_mult, cost.nslices * old_mult)
        real = (t2.max_size(), t2.total_flops(), t2.nslices)
        if pred != real:
            viol.append(
                f"search predicted (size, total flops, nslices) {pred} for {ix_sl}, "
                f"the tree sliced on them has {real}"
            )
        base_flops1 = tree.total_flops() // old_mult  # per prior slice
        new_tree = t2
        new_labels = ix_sl
        prior_nslices = old_mult
        base_total = tree.total_flops()
    elif spec["via"] == "slice_reconf":
        # the slice search driven in steps by slice_and_reconfigure (slicing
        # interleaved with subtree reconfiguration): the size target it is given
        # holds on the tree it returns
        tsz = kw.get("target_size", max(1, base_size // 4))
        kw = {"target_size": tsz}
        ok, new_tree = guarded(
            tree.slice_and_reconfigure, tsz, step_size=2 + spec["seed"] % 2, temperature=spec["temperature"],
            minimize=spec["minimize"], allow_outer=spec["allow_outer"], max_repeats=spec["max_repeats"],
            reconf_opts={"subtree_size": 4, "maxiter": 3, "seed": spec["seed"]},
        )
        if not ok:
            return no_answer(new_tree)
        new_labels = sorted(ix for ix in new_tree.sliced_inds if ix not in dict(old_sliced))
        base_total = tree.total_flops()
        prior_nslices = old_mult
    else:
        ok, new_tree = guarded(
            tree.slice, allow_outer=spec["allow_outer"], minimize=spec["minimize"],
            temperature=spec["temperature"], seed=spec["seed"],
            max_repeats=spec["max_repeats"], reslice=spec["via"] == "reslice", **kw,
        )
        if not ok:
            return no_answer(new_tree)
        if spec["via"] == "reslice":
            new_labels = sorted(new_tree.sliced_inds)
            base_total = base.total_flops()
            prior_nslices = old_mult  # documented: target_slices is on top of the current slices
            prior_for_slices = old_mult
        else:
            new_labels = sorted(ix for ix in new_tree.sliced_inds if ix not in dict(old_sliced))
            if any(ix not in new_tree.sliced_inds for ix, _ in old_sliced):
                viol.append("tree.slice dropped a previously sliced label")
            base_total = tree.total_flops()
            prior_nslices = old_mult

    # independent recomputation of the figures of the resulting tree
    removed = [(ix, si.project) for ix, si in new_tree.sliced_inds.items()]
    cr = ref.CostRef(inputs, output, sizes, removed)
    steps = [(p, l, r) for p, l, r in new_tree.traverse()]
    st_ = cr.stats(steps)
    got = (new_tree.max_size(), new_tree.total_flops(), new_tree.nslices)
    want = (st_["size"], st_["flops"], cr.nslices)
    if got != want:
        viol.append(f"sliced tree reports (size, flops, nslices) {got}, definition {want}")

    # targets
    if "target_size" in kw and new_tree.max_size() > kw["target_size"]:
        viol.append(f"target_size {kw['target_size']} not met: max_size {new_tree.max_size()}")
    if "target_slices" in kw and new_tree.nslices < kw["target_slices"] * prior_nslices:
        viol.append(
            f"target_slices {kw['target_slices']} (x{prior_nslices} prior) not met: nslices {new_tree.nslices}"
        )
    if "target_overhead" in kw:
        ovh = new_tree.total_flops() / base_total
        if ovh > kw["target_overhead"] * (1 + 1e-12):
            viol.append(f"target_overhead {kw['target_overhead']} not met: overhead {ovh}")
    # only labels of the network can be sliced (size_dict may hold spare entries)
    used = {ix for t in inputs for ix in t} | set(output)
    if any(ix not in used for ix in new_labels):
        viol.append(
            f"returned labels {sorted(new_labels)} include one the network does not carry "
            f"(a spare size_dict entry): it counts towards nslices={new_tree.nslices} although there is nothing to slice"
        )
    # forbidden labels
    if spec["allow_outer"] is False and any(ix in output for ix in new_labels):
        viol.append(f"output label sliced although allow_outer=False: {new_labels}")
    if spec["allow_outer"] == "only" and any(ix not in output for ix in new_labels):
        viol.append(f"inner label sliced although allow_outer='only': {new_labels}")

    cls.append("answered")
    cls.append("empty_set" if not new_labels else f"k={min(len(new_labels), 4)}")
    return Outcome(viol, bool(new_labels), cls)
