"""C13 - in-memory caching is invisible: cached and uncached calls agree."""

import numpy as np
from hypothesis import strategies as st

from .. import gen, ref
from ..harness import Outcome, guarded

ID = "C13"
LEVEL = "exploration"
RULE = (
    "Hypothesis draws a history (<=12 calls) of high-level interface calls "
    "{einsum, array_contract, array_contract_path, array_contract_tree, "
    "array_contract_expression (+ re-use of the stored expression on fresh "
    "arrays), einsum_expression incl. constants} over a POOL of near-identical "
    "contractions derived from one base: output order permuted, one operand "
    "transposed, one size changed, pure relabelling (should share) - a quarter "
    "of the bases are 'stars' on which optimal and optimal-outer return "
    "different paths -, and per "
    "call an optimize value from {nine deterministic preset names incl. aliases, an explicit tuple path, the "
    "same path as a list, another explicit path, a ContractionTree (plain / sliced), one caching optimizer "
    "OBJECT (ReusableHyperOptimizer / ReusableRandomGreedyOptimizer) shared by all calls of the history} and kwargs from "
    "{strip_exponent, implementation, prefer_einsum, sort_contraction_indices, "
    "via=(convert_in, convert_out) with converters that mark the value}; one array-taking call in six "
    "hands one operand over with extent 1 along a shared label (same cache entry, other shapes) "
    "incl. values equal under ==/hash but of different type (1/True/1.0). "
    "The labels of a history are one-character strings (default "
    "canonicalisation, or canonicalize=False) or integers incl. -1,-2,... "
    "(ncon style; hash(-1)==hash(-2)) with and without canonicalisation; "
    "terms are passed as lists of tuples. "
    "Module caches are cleared at the start of each history. Oracle: every "
    "returned value == independent dense reference for THAT call's "
    "contraction; a returned path is valid and, if an explicit path was "
    "given, is that path; every call is repeated with cache disabled and "
    "must agree. Non-trivial = >=1 call served from a cache (cache size "
    "unchanged) and >=2 distinct variants in the history. Distinct = "
    "sha1(spec)."
)
ASSUMPTIONS = [
    "collisions of 64-bit string hashes of genuinely different keys are outside what search can find (integer hash collisions are generated)",
    "with raw integer labels (canonicalize=False) trees are not contracted and not index-sorted: only promised for one-character labels",
    "numpy backend",
]

PRESETS = ["auto", "greedy", "optimal", "auto-hq", "optimal-outer", "dp", "dynamic-programming", "eager", "opportunistic"]


# module level converters for the ``via=(convert_in, convert_out)`` option
# (hashable, stable identities; each leaves a visible mark on the value)
def _via_double(x):
    return 2 * x


def _via_same(x):
    return x


def _via_negate(x):
    return -x


VIAS = {"dbl": (_via_double, _via_same), "neg": (_via_same, _via_negate), "same": (_via_same, _via_same)}
FUNCS = ["einsum", "array_contract", "path", "path", "path", "tree", "expression", "expression_reuse", "einsum_expression", "einsum_expression_constants", "einsum_ellipsis"]
# the same equation string is used with different numbers of ellipsis
# dimensions from call to call (parsing is cached on (equation, shapes))
ELL_EQS = ["a...,a...->...", "...a,a...->...", "a...,...->a...", "...ab,b->...a", "a...,a...", "...,...->..."]


@st.composite
def histories(draw):
    star = False
    if draw(st.integers(0, 3)) == 0:
        # a 'star': vectors hanging off one tensor, where contracting the vectors
        # with each other first (an outer product) can be strictly cheaper, so
        # the presets that differ only in whether they search outer products
        # ('optimal' / 'optimal-outer') really return different paths
        k = draw(st.integers(3, 4))
        labs = list(gen.ASCII[:k])
        inputs = [[ix] for ix in labs[:-1]]
        inputs.insert(draw(st.integers(0, k - 1)), list(draw(st.permutations(labs))))
        net = {
            "inputs": inputs,
            "output": [labs[-1]] if draw(st.booleans()) else [],
            "sizes": {ix: draw(st.integers(2, 6)) for ix in labs},
        }
        star = True
    else:
        net = draw(
            gen.networks(
                min_n=2, max_n=5, max_rank=3, max_dim=6, alphabets=("ascii",),
                volume_limit=2**14, output_prob=0.5, allow_size1=draw(st.booleans()),
            )
        )
    n = len(net["inputs"])
    p1 = draw(gen.linear_paths(n))
    p2 = draw(gen.linear_paths(n))
    # a small palette per history so that repeats (cache hits) and
    # near-identical keys (one component different) are both frequent
    variants = draw(
        st.lists(
            st.tuples(
                st.sampled_from(["base", "out_perm", "transposed", "resized", "relabelled", "size_swap"]),
                st.integers(0, 20),
            ),
            min_size=1, max_size=3,
        )
    )
    opts = draw(
        st.lists(
            st.sampled_from(PRESETS + ["optimal", "optimal-outer", "p1_tuple", "p1_list", "p1_nested", "p1_tuple_of_lists", "p2_tuple", "p2_list", "p2_nested", "p2_tuple_of_lists", "e_tuple", "e_list", "tree_plain", "tree_sliced", "reusable_hyper", "reusable_rg"]),
            min_size=1, max_size=3,
        )
    )
    if star:
        opts = ["optimal", "optimal-outer"] + opts[:1]
    # themed histories: combinations that are rare under independent draws
    # (an expression over a SLICED tree re-used with per-call options; one
    # caching optimizer object asked about near-identical contractions)
    theme = draw(st.sampled_from([None] * 6 + ["sliced_expr", "reusable_obj"]))
    if theme == "sliced_expr" and not star:
        opts = ["tree_sliced", draw(st.sampled_from(["tree_plain", "greedy", "tree_sliced"]))]
    elif theme == "reusable_obj" and not star:
        opts = [draw(st.sampled_from(["reusable_hyper", "reusable_rg"]))] + opts[:1]
    kwsets = draw(
        st.lists(
            st.fixed_dictionaries(
                {
                    # (numpy booleans are what a comparison such as ``x.max() > 1e50`` yields)
                    "strip": st.sampled_from([False, False, True, 1, "np_false", "np_true"]),
                    "impl": st.sampled_from([None, None, "cotengra", "autoray"]),
                    "prefer_einsum": st.sampled_from([False, False, True, 1, 1.0]),
                    "sort": st.sampled_from([False, False, True]),
                    "via": st.sampled_from([None, None, "dbl", "neg", "same"]),
                }
            ),
            min_size=1, max_size=3,
        )
    )
    raw = draw(
        st.lists(
            st.tuples(
                st.sampled_from(FUNCS), st.integers(0, 2), st.integers(0, 2),
                st.integers(0, 2), st.integers(0, 50),
            ),
            min_size=2, max_size=12,
        )
    )
    # label type of the whole history: one-character strings (canonicalised
    # as by default), or integers incl. negative ones (ncon style) passed with
    # or without canonicalisation - the library documents arbitrary hashable
    # labels for the array_contract family
    labmode = draw(st.sampled_from(["str", "str", "int_nocanon", "int_canon", "str_nocanon"]))
    if theme == "sliced_expr" and not star:
        labmode = "str"
        pref = ["expression_reuse", "expression_reuse", "expression", "einsum", "array_contract", "einsum_expression"]
        raw = [(pref[(aseed + j) % len(pref)] if j % 3 else fn, vi, oi, ki, aseed) for j, (fn, vi, oi, ki, aseed) in enumerate(raw)]
    calls = []
    for fn, vi, oi, ki, aseed in raw:
        kind, vk = variants[vi % len(variants)]
        c = {"fn": fn, "variant": kind, "vk": vk, "optimize": opts[oi % len(opts)], "aseed": aseed}
        # one array-taking call in six hands one operand over with extent 1
        # along a shared label
        c["stretch"] = aseed if aseed % 6 == 0 else None
        c.update(kwsets[ki % len(kwsets)])
        calls.append(c)
    return {"net": net, "p1": p1, "p2": p2, "calls": calls, "labmode": labmode}


def strategy(tier, sub=None):
    return histories()


def budget(tier, sub=None):
    return {"examples": 19200 if tier == "quick" else 160000, "shards": 16}


def clear_caches():
    import importlib

    import cotengra as ctg

    I = ctg.interface
    I._PATH_CACHE.clear()
    I._CONTRACT_EXPR_CACHE.clear()
    I._find_path_handlers.clear()
    I._find_tree_handlers.clear()
    I._HASH_OPTIMIZE_PREPARERS.clear()
    I.preset_to_optimizer.cache_clear()
    I.can_hash_optimize.cache_clear()
    C = importlib.import_module("cotengra.contract")
    for f in ("_sanitize_equation", "_parse_einsum_single", "_parse_eq_to_batch_matmul", "_parse_tensordot_axes_to_matmul"):
        getattr(C, f).cache_clear()
    ctg.utils.parse_equation_ellipses.cache_clear()


# integer labels as an ncon user would write them (negative = open legs)
INT_POOL = [-1, -2, 1, 2, -3, 3, 0, 4, -4, 5, 6, 7, 8, 9, 10, 11, 12, 13, 14, 15, 16, 17, 18, 19, 20, 21, 22, 23, 24]


def to_int_labels(inputs, output, sizes, base_labels):
    m = {ix: INT_POOL[j] for j, ix in enumerate(base_labels)}
    return (
        [tuple(m[ix] for ix in t) for t in inputs],
        tuple(m[ix] for ix in output),
        {m[ix]: d for ix, d in sizes.items()},
    )


def make_variant(net, kind, k):
    """Return (inputs, output, sizes, perms) for a variant of the base.
    ``perms[i]`` is the axis permutation applied to operand i (or None)."""
    inputs = [list(t) for t in net["inputs"]]
    output = list(net["output"])
    sizes = dict(net["sizes"])
    if kind == "out_perm" and len(output) >= 2:
        r = 1 + k % (len(output) - 1)
        output = output[r:] + output[:r]
    elif kind == "transposed":
        cand = [i for i, t in enumerate(inputs) if len(t) >= 2]
        if cand:
            i = cand[k % len(cand)]
            t = inputs[i]
            r = 1 + k % (len(t) - 1)
            inputs[i] = t[r:] + t[:r]
    elif kind == "resized" and sizes:
        ix = sorted(sizes)[k % len(sizes)]
        sizes[ix] = sizes[ix] + 1
    elif kind == "size_swap" and len(sizes) >= 2:
        # swap the sizes of two labels AND the order of the dict, so that the
        # sequence of *values* is unchanged while the contraction differs
        keys = list(sizes)
        i = k % len(keys)
        j = (i + 1 + (k // len(keys)) % (len(keys) - 1)) % len(keys)
        keys[i], keys[j] = keys[j], keys[i]
        vals = list(sizes.values())
        sizes = dict(zip(keys, vals))
    elif kind == "relabelled":
        m = {ix: gen.ASCII[51 - j] for j, ix in enumerate(sorted(sizes))}
        inputs = [[m[ix] for ix in t] for t in inputs]
        output = [m[ix] for ix in output]
        sizes = {m[ix]: d for ix, d in sizes.items()}
    return [tuple(t) for t in inputs], tuple(output), sizes


def run_case(spec, sub=None):
    import cotengra as ctg

    I = ctg.interface
    clear_caches()
    net = spec["net"]
    n = len(net["inputs"])
    paths = {
        "p1": tuple(tuple(p) for p in spec["p1"]),
        "p2": tuple(tuple(p) for p in spec["p2"]),
    }
    viol = []
    hits = 0
    variants_seen = set()
    cls = []
    handed_out = {}  # id(object) -> (canonical contraction, object)
    shared_opts = {}  # one caching optimizer object per history and kind

    def canonical(inputs, output, sizes):
        m = {}
        for t in inputs:
            for ix in t:
                m.setdefault(ix, len(m))
        for ix in output:
            m.setdefault(ix, len(m))
        return (
            tuple(tuple(m[ix] for ix in t) for t in inputs),
            tuple(m[ix] for ix in output),
            tuple(sorted((m[ix], d) for ix, d in sizes.items() if ix in m)),
        )

    def check_not_shared(obj, canon, what):
        """A cached path / expression object may be handed out again only for
        the same contraction up to relabelling."""
        prev = handed_out.get(id(obj))
        if prev is not None and prev[1] is obj and prev[0] != canon:
            viol.append(
                f"{what}: received the very object (cached path/expression) that an earlier, "
                "different contraction received"
            )
        handed_out[id(obj)] = (canon, obj)

    labmode = spec.get("labmode", "str")
    canon_kw = {} if labmode in ("str", "int_canon") else {"canonicalize": False}
    # output labels first: the open legs get -1, -2, ...
    base_labels = list(dict.fromkeys(list(net["output"]) + sorted(net["sizes"])))
    cls.append(f"labels={labmode}")

    for k, call in enumerate(spec["calls"]):
        inputs, output, sizes = make_variant(net, call["variant"], call["vk"])
        if labmode.startswith("int"):
            if call["variant"] == "relabelled":
                # relabel within the integers: shift every label by one place
                inputs, output, sizes = make_variant(net, "base", 0)
                inputs, output, sizes = to_int_labels(inputs, output, sizes, base_labels[-1:] + base_labels[:-1])
            else:
                inputs, output, sizes = to_int_labels(inputs, output, sizes, base_labels)
        variants_seen.add((tuple(inputs), output, tuple(sorted(sizes.items()))))
        canon = canonical(inputs, output, sizes)
        arrays = ref.make_arrays(inputs, sizes, call["aseed"] + 100 * k, "f")
        arrays2 = ref.make_arrays(inputs, sizes, call["aseed"] + 100 * k + 7, "f")
        exp = ref.dense_ref(inputs, output, sizes, arrays)
        exp2 = ref.dense_ref(inputs, output, sizes, arrays2)
        o = call["optimize"]
        explicit = None
        edge = None
        if o.startswith("tree_") and (labmode != "str" or len(inputs) < 2):
            o = "greedy"
        if o == "tree_sliced":
            # strictly positive entries: no slice is identically zero (with
            # stripping that would be the documented nan)
            arrays = [np.asarray(np.abs(a) + 1) for a in arrays]
            arrays2 = [np.asarray(np.abs(a) + 1) for a in arrays2]
            exp = ref.dense_ref(inputs, output, sizes, arrays)
            exp2 = ref.dense_ref(inputs, output, sizes, arrays2)
        if o.startswith("tree_"):
            # an explicit ContractionTree instance as ``optimize`` (documented);
            # 'sliced': with one label sliced, so that expressions wrap
            # tree.contract instead of a compiled contractor
            optimize = ctg.ContractionTree.from_path(inputs, output, sizes, path=paths["p1"])
            if o == "tree_sliced" and sizes:
                cand_ = [ix for ix in sorted(sizes) if ix in {j for t in inputs for j in t}]
                if cand_:
                    optimize.remove_ind_(cand_[call["vk"] % len(cand_)])
        elif o.startswith("reusable_"):
            # a caching optimizer *object* shared by every call of the history
            # (what 'auto'/'auto-hq' turn into for larger contractions): its
            # own path cache sits below the interface caches
            if o not in shared_opts:
                if o == "reusable_hyper":
                    shared_opts[o] = ctg.ReusableHyperOptimizer(
                        methods=["greedy"], max_repeats=2, optlib="random", parallel=False, progbar=False,
                    )
                else:
                    shared_opts[o] = ctg.pathfinders.path_basic.ReusableRandomGreedyOptimizer(
                        max_repeats=2, seed=0, parallel=False,
                    )
            optimize = shared_opts[o]
        elif o.startswith("p"):
            explicit = paths[o[:2]]
            if o.endswith("tuple_of_lists"):
                optimize = tuple(list(st_) for st_ in explicit)
            elif o.endswith("nested"):
                # a list of lists (e.g. a path that went through JSON)
                optimize = [list(st_) for st_ in explicit]
            else:
                optimize = list(map(tuple, explicit)) if o.endswith("list") else explicit
        elif o.startswith("e_") and labmode.startswith("int"):
            # a sequence of integers is read as a linear path: no edge paths
            optimize = "greedy"
            o = "greedy"
        elif o.startswith("e_"):
            # an edge path: every label of this variant, in an order derived
            # from the spec (dispatch on the *type* of optimize is cached)
            labs = sorted(sizes)
            r = call["vk"] % max(1, len(labs))
            edge = labs[r:] + labs[:r]
            if not edge:
                optimize = "greedy"
                o = "greedy"
                edge = None
            else:
                optimize = list(edge) if o.endswith("list") else tuple(edge)
        else:
            optimize = o
        fn = call["fn"]
        if labmode.startswith("int"):
            # no equation strings with integer labels: the array_contract
            # family takes the place of the einsum family
            fn = {
                "einsum": "array_contract", "einsum_expression": "expression_reuse",
                "einsum_expression_constants": "expression_constants",
            }.get(fn, fn)
            eq = None
        else:
            eq = ",".join("".join(t) for t in inputs) + "->" + "".join(output)
        shapes = [a.shape for a in arrays]
        kw = {}
        if call["impl"] is not None:
            kw["implementation"] = call["impl"]
        if call["prefer_einsum"] is not False:
            kw["prefer_einsum"] = call["prefer_einsum"]
        # (sorting the indices of a tree joins its labels into strings: only
        # promised for one-character labels)
        do_sort = bool(call["sort"]) and labmode != "int_nocanon"
        if do_sort:
            kw["sort_contraction_indices"] = True
        # the very same equation with one operand of extent 1 along a label
        # that others carry in full (numpy-style broadcasting): same size_dict,
        # so the same cache entry as the full-size call - but other shapes
        # (with the library's own pairwise kernels: the backend's tensordot does
        # not broadcast - DESIGN section 3, observed and not claimed)
        if (
            call.get("stretch") is not None and fn in ("einsum", "array_contract") and o != "tree_sliced"
            and labmode == "str" and call.get("impl") in (None, "cotengra")
        ):
            cnt_ = {}
            for t in inputs:
                for ix in set(t):
                    cnt_[ix] = cnt_.get(ix, 0) + 1
            opts_ = [
                (i, ix) for i, t in enumerate(inputs) for ix in sorted(set(t))
                if t.count(ix) == 1 and cnt_[ix] >= 2 and sizes[ix] >= 2
            ]
            if opts_:
                i_, ix_ = opts_[call["stretch"] % len(opts_)]
                ax_ = list(inputs[i_]).index(ix_)
                small_ = np.take(arrays[i_], [0], axis=ax_)
                full_ = list(arrays)
                full_[i_] = np.ascontiguousarray(np.repeat(small_, sizes[ix_], axis=ax_))
                exp = ref.dense_ref(inputs, output, sizes, full_)
                arrays = list(arrays)
                arrays[i_] = small_
                cls.append("broadcast_operand")
        strip = call["strip"]
        if strip == "np_false":
            strip = np.False_
        elif strip == "np_true":
            strip = np.True_
        via = call.get("via")
        if via and fn in ("einsum", "array_contract", "expression", "expression_reuse", "einsum_expression"):
            kw["via"] = VIAS[via]
            factor = {"dbl": 2.0 ** n, "neg": -1.0, "same": 1.0}[via]
            exp = exp * factor
            exp2 = exp2 * factor
        what = f"call#{k} {fn}({call['variant']}, optimize={o}, labels={labmode})"

        def value_of(res, stripped):
            if stripped:
                if not (isinstance(res, tuple) and len(res) == 2):
                    return None
                m, e = res
                return np.asarray(m) * 10.0 ** float(e)
            return np.asarray(res)

        def check_value(res, want, stripped, tag):
            v = value_of(res, stripped)
            if v is None:
                viol.append(f"{what}{tag}: strip_exponent result is not (mantissa, exponent)")
                return
            if v.shape != want.shape:
                viol.append(f"{what}{tag}: shape {v.shape} != reference {want.shape}")
            elif stripped:
                tol = 1e-9 * max(1.0, float(np.max(np.abs(want))) if want.size else 1.0)
                if want.size and not np.all(np.abs(v - want) <= tol):
                    if np.any(want != 0):  # the non-zero premise of stripping
                        viol.append(f"{what}{tag}: value differs from reference")
            elif not np.array_equal(v, want):
                viol.append(f"{what}{tag}: value differs from reference")

        def do(cache):
            """perform the call with caching on/off; returns a list of
            (result, expected, stripped) and optionally a path"""
            out = {"values": [], "path": None}
            if fn == "einsum_ellipsis":
                eq_e = ELL_EQS[call["vk"] % len(ELL_EQS)]
                ne = call["aseed"] % 3  # 0, 1 or 2 ellipsis dims this time
                edims = [2, 3][:ne]
                lhs = eq_e.split("->")[0].split(",")
                arrs = []
                for j, term in enumerate(lhs):
                    shp = []
                    for part in term.replace("...", ".").replace(".", " . ").split():
                        if part == ".":
                            shp += edims
                        else:
                            shp += [2 + (ord(ch) % 2) for ch in part]
                    rng = np.random.default_rng([call["aseed"], j, k])
                    arrs.append(rng.integers(-2, 3, size=shp).astype(float))
                want = np.einsum(eq_e, *arrs)
                r = ctg.einsum(eq_e, *arrs, optimize="auto" if not o.startswith("p") else "greedy", cache_expression=cache)
                out["values"].append((r, want, False))
                return out
            if fn == "einsum":
                r = ctg.einsum(eq, *arrays, optimize=optimize, strip_exponent=strip, cache_expression=cache, **kw)
                out["values"].append((r, exp, bool(strip)))
            elif fn == "array_contract":
                r = ctg.array_contract(arrays, inputs, output, optimize=optimize, strip_exponent=strip, cache_expression=cache, **canon_kw, **kw)
                out["values"].append((r, exp, bool(strip)))
            elif fn == "path":
                out["path"] = ctg.array_contract_path(inputs, output, sizes, optimize=optimize, cache=cache, **canon_kw)
                if cache and explicit is None and edge is None and len(out["path"]) > 0:
                    check_not_shared(out["path"], canon, what)
            elif fn == "tree":
                t = ctg.array_contract_tree(inputs, output, sizes, optimize=optimize, sort_contraction_indices=do_sort, **canon_kw)
                out["path"] = t.get_path()
                if labmode != "int_nocanon":
                    # (a tree over raw integer labels is not promised to contract)
                    out["values"].append((t.contract(arrays), exp, False))
            elif fn in ("expression", "expression_reuse"):
                e = ctg.array_contract_expression(inputs, output, sizes, optimize=optimize, strip_exponent=strip, cache=cache, **canon_kw, **kw)
                if cache and len(inputs) > 1:
                    check_not_shared(e, canon, what)
                out["values"].append((e(*arrays), exp, bool(strip)))
                if fn == "expression_reuse":
                    if call["aseed"] % 2 == 0 and not kw.get("via"):
                        # one call with a per-call option in between: it must
                        # hold for that call only
                        try:
                            r_mid = e(*arrays, strip_exponent=not bool(strip))
                        except TypeError:
                            # (this kind of expression takes no per-call options)
                            r_mid = None
                        if r_mid is not None:
                            out["values"].append((r_mid, exp, not bool(strip)))
                    out["values"].append((e(*arrays2), exp2, bool(strip)))
            elif fn == "einsum_expression":
                # (shapes handed over as tuples and lists mixed)
                shp_arg = [list(s_) if (j_ + call["aseed"]) % 2 else tuple(s_) for j_, s_ in enumerate(shapes)]
                e = ctg.einsum_expression(eq, *shp_arg, optimize=optimize, strip_exponent=strip, cache=cache, **kw)
                out["values"].append((e(*arrays), exp, bool(strip)))
                out["values"].append((e(*arrays2), exp2, bool(strip)))
            else:
                consts = [i for i in range(n) if (i + call["vk"]) % 2 == 0]
                args = [arrays[i] if i in consts else shapes[i] for i in range(n)]
                # (stripping while tracing through a SLICED tree is not supported:
                # the slices are gathered with python max() on traced scalars)
                strip_c = strip if o != "tree_sliced" else False
                k2 = {kk: vv for kk, vv in kw.items()}
                if fn == "expression_constants":
                    def mk(args_):
                        return ctg.array_contract_expression(
                            inputs, output, shapes=[a if isinstance(a, tuple) else a.shape for a in args_],
                            optimize=optimize, constants={i: args_[i] for i in consts}, cache=cache,
                            strip_exponent=strip_c, **canon_kw, **k2,
                        )
                else:
                    def mk(args_):
                        return ctg.einsum_expression(eq, *args_, optimize=optimize, constants=consts, cache=cache, strip_exponent=strip_c, **k2)
                e = mk(args)
                free = [arrays[i] for i in range(n) if i not in consts]
                out["values"].append((e(*free), exp, bool(strip_c)))
                # fresh arrays for the non-constant operands only
                mixed = [arrays[i] if i in consts else arrays2[i] for i in range(n)]
                exp_m = ref.dense_ref(inputs, output, sizes, mixed)
                free2 = [arrays2[i] for i in range(n) if i not in consts]
                out["values"].append((e(*free2), exp_m, bool(strip_c)))
                # the constants are updated IN PLACE and the expression is asked
                # for again: it must be built from their current values
                changed = [a.copy() for a in arrays]
                for i in consts:
                    arrays[i] += 1.0
                try:
                    args3 = [arrays[i] if i in consts else shapes[i] for i in range(n)]
                    e3 = mk(args3)
                    exp3 = ref.dense_ref(inputs, output, sizes, arrays)
                    out["values"].append((e3(*free), exp3, bool(strip_c)))
                finally:
                    for i in consts:
                        arrays[i][...] = changed[i]
            return out

        before = (len(I._PATH_CACHE), len(I._CONTRACT_EXPR_CACHE))
        ok, res = guarded(do, True)
        after = (len(I._PATH_CACHE), len(I._CONTRACT_EXPR_CACHE))
        if fn not in ("tree",) and before == after and k > 0:
            hits += 1
        if not ok:
            viol.append(f"{what} raised {res}")
            break
        for j, (r, want, stripped) in enumerate(res["values"]):
            check_value(r, want, stripped, f" [cached, value {j}]")
        if res["path"] is not None:
            p = [tuple(s) for s in res["path"]]
            if edge is not None and fn == "path":
                from .c05 import check_partial
                from .c10 import edge_ref

                left = n - sum(len(s_) - 1 for s_ in edge_ref(edge, inputs))
                msg = check_partial(p, n, left)
            else:
                msg = ref.check_path_valid(p, n)
            if msg:
                viol.append(f"{what}: returned path {p} invalid: {msg}")
            elif explicit is not None:
                if fn == "tree":
                    # a tree may linearise the same contraction differently
                    same = {x for x, _, _ in ref.ssa_nodes(ref.linear_to_ssa_ref(p, n), n)} == {
                        x for x, _, _ in ref.ssa_nodes(ref.linear_to_ssa_ref(explicit, n), n)
                    }
                else:
                    same = [tuple(sorted(s)) for s in p] == [tuple(sorted(s)) for s in explicit]
                if not same:
                    viol.append(f"{what}: explicit path {list(explicit)} was given but {p} came back")
        if viol:
            break
        if fn == "path" and spec.get("scribble", True):
            # the caller owns what it was handed: scribbling over a returned
            # path (where it is mutable) must not reach the cache
            pth = res["path"]
            res["path"] = [tuple(s_) for s_ in pth]  # keep what was returned for the comparisons below
            try:
                if isinstance(pth, list):
                    for st_ in pth:
                        if isinstance(st_, list) and st_:
                            st_[0] = 99
                    pth.append("junk")
                    cls.append("returned_path_mutated")
            except Exception:
                pass
        # the same call with caching disabled must agree
        if fn != "tree":
            ok, res2 = guarded(do, False)
            if not ok:
                viol.append(f"{what} with cache disabled raised {res2}")
                break
            for j, ((r1, want, stripped), (r2, _, _)) in enumerate(zip(res["values"], res2["values"])):
                check_value(r2, want, stripped, f" [uncached, value {j}]")
            if res["path"] is not None and (explicit is not None or edge is not None or fn == "path"):
                # explicit paths and the deterministic presets used here (small
                # networks: greedy / optimal, also behind auto / auto-hq) must
                # not depend on whether the answer came from the cache
                if [tuple(s) for s in res2["path"]] != [tuple(s) for s in res["path"]]:
                    viol.append(
                        f"{what}: path with caching {[tuple(s) for s in res['path']]} differs from the "
                        f"path without caching {[tuple(s) for s in res2['path']]}: another contraction's entry was served"
                    )
        if viol:
            break
        cls.append(f"fn={fn}")
        if o.startswith("reusable_"):
            cls.append("shared_reusable_optimizer_object")
    if hits:
        cls.append("cache_hit")
    nontrivial = hits >= 1 and len(variants_seen) >= 2
    return Outcome(viol, nontrivial, sorted(set(cls)), {"cache_hits": hits, "calls": len(spec["calls"])})
