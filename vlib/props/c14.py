"""C14 - a reusable optimizer's cache hit is a correct answer for the question asked."""

import math
import os
import shutil
import tempfile
import warnings

from hypothesis import strategies as st

from .. import gen, ref
from ..harness import Outcome, guarded

ID = "C14"
LEVEL = "exploration"
RULE = (
    "Hypothesis draws a history (<=10 ops) over ONE cache (in memory or a "
    "scratch directory): search/__call__ of a query from a pool of similar "
    "contractions (same; label order inside a tensor permuted; output "
    "permuted; one size changed; one label moved; two labels of different "
    "size swapped everywhere; all labels renamed; each rebuilt from fresh or "
    "shared string objects), through one of several optimizer objects on the "
    "same directory (new objects = a fresh process as far as DiskDict can "
    "tell), with overwrite in {False, True, 'improved'}, cache_only, "
    "update_from_tree, hash_method a/b, directory_split; for "
    "ReusableHyperOptimizer (counting hyper method, so 'no search ran' is "
    "observed) and ReusableRandomGreedyOptimizer. Model: dict from my own "
    "fingerprint to the answers ever stored. Oracle: every tree is a "
    "complete tree of the queried network; a hit returns a stored (order, "
    "sliced labels, score); an exact repeat (overwrite=False) runs zero "
    "trials; under 'improved' the stored score read back through a fresh "
    "cache_only optimizer never increases; cache_only never runs a trial; "
    "under hash 'a' a query is served without search iff an entry with the "
    "same fingerprint (equal up to label order inside tensors/output) "
    "exists. One case in sixteen: ReusableHyperCompressedOptimizer(chi), where the "
    "repeated query must report path, default chi, score, max_size and peak of the "
    "stored tree. Non-trivial = >=1 cache hit and >=2 distinct queries. Distinct "
    "= sha1(spec)."
)
ASSUMPTIONS = [
    "new optimizer objects on the same directory stand in for new processes (C15 uses real ones)",
    "under hash_method 'b' (relabelling-invariant by intent) asserted: validity of the returned tree, and that a query is served without search only if the same contraction up to label names was stored before",
]

def known_hash_b_sliced(spec, v):
    """Open finding: under hash_method='b' a permutation of equal-sized labels
    shares the entry, but the sliced labels are stored by NAME and applied to
    whatever carries that name in the new query."""
    # (entries with sliced labels come from slicing_opts or from a caller-sliced
    # tree handed to update_from_tree)
    has_sliced_entries = bool(spec.get("slicing")) or any(
        op.get("op") == "update_from_tree" and op.get("seed", 1) % 3 == 0 for op in spec.get("ops", [])
    )
    return spec.get("hash_method") == "b" and has_sliced_entries and "[hash_method='b']" in v


KNOWN = {"hash_b_sliced_labels_by_name": known_hash_b_sliced}

COUNT = "verif-count"
_calls = {"n": 0}


def _register():
    from cotengra.hyperoptimizers import hyper as H

    if COUNT in H._PATH_FNS:
        return

    def counting(inputs, output, size_dict, x=0, **_):
        import cotengra as ctg

        _calls["n"] += 1
        return ctg.pathfinders.path_random.RandomOptimizer(seed=x).search(inputs, output, size_dict)

    H.register_hyper_function(COUNT, counting, {"x": {"type": "INT", "min": 0, "max": 50}})


@st.composite
def histories(draw):
    n = draw(st.integers(3, 6))
    net = draw(
        gen.networks(
            min_n=n, max_n=n, max_rank=3, max_dim=4, alphabets=("ascii",),
            volume_limit=2**60, allow_size1=False, allow_repeat=False,
        )
    )
    kind = draw(st.sampled_from(["hyper", "hyper", "rg"]))
    ops = draw(
        st.lists(
            st.fixed_dictionaries(
                {
                    "op": st.sampled_from(["search", "search", "search", "call", "update_from_tree", "new_object"]),
                    "variant": st.sampled_from(["same", "same", "perm_in", "perm_out", "resize", "move", "out_change", "swap_labels", "swap_equal", "rename", "add_scalar"]),
                    "vk": st.integers(0, 20),
                    "objmode": st.sampled_from(["shared", "fresh", "inplace", "fresh_tuple", "shared_tuple", "np_sizes"]),
                    "obj": st.integers(0, 2),
                    "overwrite": st.sampled_from([False, False, False, True, "improved"]),
                    "cache_only": st.sampled_from([False, False, False, True]),
                    "uft_overwrite": st.sampled_from([False, True, "improved"]),
                    "seed": st.integers(0, 99),
                }
            ),
            min_size=2,
            max_size=10,
        )
    )
    hash_method = draw(st.sampled_from(["a", "a", "a", "b"]))
    if hash_method == "b" and draw(st.booleans()):
        # many labels of one size: the label permutations that the
        # relabelling-invariant fingerprint is meant to recognise exist
        d0 = draw(st.integers(2, 4))
        net = dict(net, sizes={ix: d0 for ix in net["sizes"]})
    return {
        "net": net,
        "kind": kind,
        "directory": draw(st.booleans()),
        "directory_split": draw(st.sampled_from(["auto", True, False])),
        "hash_method": hash_method,
        "minimize": draw(st.sampled_from(["flops", "size", "combo"])),
        "slicing": draw(st.booleans()),
        "max_repeats": draw(st.integers(1, 3)),
        "ops": ops,
    }


@st.composite
def improve_reload_histories(draw):
    """Histories shaped to reach the interesting corner: store, several
    overwrite='improved' searches of (mostly) the same contraction, a reload
    by a new object, then queries again."""
    spec = draw(histories())
    spec["directory"] = draw(st.sampled_from([True, True, False]))

    def op(name, **kw):
        d = {
            "op": name, "variant": "same", "vk": 0,
            "objmode": draw(st.sampled_from(["shared", "fresh"])), "obj": 0,
            "overwrite": False, "cache_only": False, "uft_overwrite": False,
            "seed": draw(st.integers(0, 99)),
        }
        d.update(kw)
        return d

    k = draw(st.integers(1, 5))
    var = draw(st.sampled_from(["same", "same", "perm_in", "perm_out"]))
    ops = [op("search")]
    ops += [op("search", overwrite="improved", variant=draw(st.sampled_from(["same", var]))) for _ in range(k)]
    ops.append(op("new_object"))
    ops.append(op(draw(st.sampled_from(["search", "search", "call"])), variant=var, cache_only=draw(st.booleans())))
    ops.append(op("search", overwrite=draw(st.sampled_from([False, "improved"]))))
    spec["ops"] = ops
    return spec


@st.composite
def compressed_cases(draw):
    """The reusable optimizer of the *compressed* family: the cap chi is part
    of the question, so a tree served from the cache must carry it like the
    tree that was stored."""
    net = draw(
        gen.networks(
            min_n=3, max_n=8, allow_repeat=False, allow_scalar=False, connected=True,
            volume_limit=2**40, max_dim=4, allow_size1=False,
        )
    )
    cnt = {}
    for t in net["inputs"]:
        for ix in t:
            cnt[ix] = cnt.get(ix, 0) + 1
    for ix, c in cnt.items():
        if c == 1 and ix not in net["output"]:
            net["output"].append(ix)
    return {
        "kind": "hyperc", "net": net, "chi": draw(st.sampled_from([1, 2, 3, 4])),
        "directory": draw(st.booleans()), "hash_method": draw(st.sampled_from(["a", "a", "b"])),
        "how": draw(st.sampled_from(["same_object", "new_object", "new_object"])),
        "max_repeats": draw(st.integers(1, 3)),
    }


def strategy(tier, sub=None):
    return st.integers(0, 15).flatmap(
        lambda i: compressed_cases() if i == 0 else improve_reload_histories() if i < 5 else histories()
    )


def budget(tier, sub=None):
    return {"examples": 19200 if tier == "quick" else 160000, "shards": 16}


def label_name(ix):
    return "ix_" + ix  # multi-character labels: not interned by CPython


# containers that are handed to the optimizer again and again and edited in
# place between queries (objmode 'inplace'): identity says nothing about content
_INPLACE = {"inputs": [], "output": [], "sizes": {}}


def make_query(net, variant, k, objmode):
    inputs = [list(t) for t in net["inputs"]]
    output = list(net["output"])
    sizes = dict(net["sizes"])
    if variant == "perm_in":
        cand = [i for i, t in enumerate(inputs) if len(t) >= 2]
        if cand:
            i = cand[k % len(cand)]
            t = inputs[i]
            r = 1 + k % (len(t) - 1)
            inputs[i] = t[r:] + t[:r]
    elif variant == "perm_out" and len(output) >= 2:
        r = 1 + k % (len(output) - 1)
        output = output[r:] + output[:r]
    elif variant == "resize" and sizes:
        ix = sorted(sizes)[k % len(sizes)]
        sizes[ix] += 1
    elif variant == "out_change" and sizes:
        ix = sorted(sizes)[k % len(sizes)]
        if ix in output:
            # only drop it if it stays a valid contraction (label still on an input)
            output.remove(ix)
        else:
            output.append(ix)
    elif variant == "add_scalar":
        # one more (scalar) tensor: a contraction over N + 1 tensors
        inputs = inputs + [[]] * (1 + k % 2)
    elif variant == "swap_equal" and len(sizes) >= 2:
        # two labels of the SAME size trade places everywhere: the same
        # contraction up to label names (a relabelling-invariant fingerprint
        # may share the entry - but what is stored by name must be translated)
        labs = sorted(sizes)
        pairs = [(a, b) for i, a in enumerate(labs) for b in labs[i + 1:] if sizes[a] == sizes[b]]
        if pairs:
            a, b = pairs[k % len(pairs)]
            sw = {a: b, b: a}
            inputs = [[sw.get(ix, ix) for ix in t] for t in inputs]
            output = [sw.get(ix, ix) for ix in output]
    elif variant == "swap_labels" and len(sizes) >= 2:
        # two labels of different size trade places everywhere (the size_dict
        # stays as it is): same incidence structure, same {label: size}, but the
        # sizes now sit on other bonds - a different contraction
        labs = sorted(sizes)
        pairs = [(a, b) for i, a in enumerate(labs) for b in labs[i + 1:] if sizes[a] != sizes[b]]
        if pairs:
            a, b = pairs[k % len(pairs)]
            sw = {a: b, b: a}
            inputs = [[sw.get(ix, ix) for ix in t] for t in inputs]
            output = [sw.get(ix, ix) for ix in output]
    elif variant == "rename" and sizes:
        # the same contraction under other label names (only the
        # relabelling-invariant fingerprint can recognise it)
        ren = {ix: ix + "r" for ix in sizes}
        inputs = [[ren[ix] for ix in t] for t in inputs]
        output = [ren[ix] for ix in output]
        sizes = {ren[ix]: d for ix, d in sizes.items()}
    elif variant == "move" and sizes:
        ix = sorted(sizes)[k % len(sizes)]
        src = [i for i, t in enumerate(inputs) if ix in t]
        dst = [i for i, t in enumerate(inputs) if ix not in t]
        if src and dst:
            inputs[src[k % len(src)]].remove(ix)
            inputs[dst[k % len(dst)]].append(ix)
    # build label objects
    if objmode in ("shared", "inplace", "np_sizes"):
        objs = {ix: label_name(ix) for ix in sizes}
        get = objs.__getitem__
    elif objmode == "fresh_tuple":
        # labels that are tuples holding strings, every string a new object
        def get(ix):
            return ("".join(["bo", "nd"]), "".join(["ix_", ix]))
    elif objmode == "shared_tuple":
        # equal labels, but all of them hold the very same 'bond' string object
        bond = "".join(["bo", "nd"])
        objs = {ix: (bond, label_name(ix)) for ix in sizes}
        get = objs.__getitem__
    else:
        def get(ix):
            return "".join(["ix_", ix])  # a brand new str object every time

    q_inputs = tuple(tuple(get(ix) for ix in t) for t in inputs)
    q_output = tuple(get(ix) for ix in output)
    q_sizes = {get(ix): d for ix, d in sizes.items()}
    if objmode == "np_sizes":
        # the same sizes as numpy integers (all but the first one)
        import numpy as _np

        q_sizes = {ix: (d if j == 0 else _np.int64(d)) for j, (ix, d) in enumerate(q_sizes.items())}
    if objmode == "inplace":
        # the very same list / dict objects as last time, with new content
        c = _INPLACE
        c["inputs"][:] = q_inputs
        c["output"][:] = q_output
        c["sizes"].clear()
        c["sizes"].update(q_sizes)
        return c["inputs"], c["output"], c["sizes"]
    return q_inputs, q_output, q_sizes


def fingerprint_a(inputs, output, sizes):
    return (
        tuple(tuple(sorted(t)) for t in inputs),
        tuple(sorted(output)),
        tuple(sorted(sizes.items())),
    )


def fingerprint_b(inputs, output, sizes):
    """Relabelling-invariant identity of a contraction: the multiset of bonds,
    each = (which tensors carry it, with multiplicity, -1 for the output; its
    size), together with the number of tensors (scalars carry no bond).  Two queries with different values differ as contractions (for
    cost and path purposes), whatever their labels are called."""
    edges = {}
    for ix in output:
        edges.setdefault(ix, []).append(-1)
    for i, t in enumerate(inputs):
        for ix in t:
            edges.setdefault(ix, []).append(i)
    return len(inputs), tuple(sorted((tuple(sorted(nodes)), sizes[ix]) for ix, nodes in edges.items()))


def run_compressed(spec):
    import cotengra as ctg

    from .c05 import check_tree

    net = spec["net"]
    inputs = [tuple(t) for t in net["inputs"]]
    output = tuple(net["output"])
    sizes = dict(net["sizes"])
    scratch = os.environ.get("VERIF_SCRATCH")
    directory = tempfile.mkdtemp(prefix="c14c-", dir=scratch) if spec["directory"] else None
    viol = []
    cls = ["kind=hyperc", f"hash={spec['hash_method']}", "disk" if directory else "memory", f"how={spec['how']}"]

    def new_opt():
        return ctg.ReusableHyperCompressedOptimizer(
            chi=spec["chi"], methods=["greedy-compressed"], max_repeats=spec["max_repeats"], optlib="random",
            parallel=False, directory=os.path.join(directory, "cache") if directory else None,
            hash_method=spec["hash_method"], on_trial_error="raise",
        )

    def figures(t):
        return (tuple(map(tuple, t.get_ssa_path())), t.get_default_chi(), round(t.get_score(), 9), t.max_size(), t.peak_size())

    try:
        ok, opt = guarded(new_opt)
        if not ok:
            return Outcome([f"ReusableHyperCompressedOptimizer(...) raised {opt}"], False, cls)
        ok, t1 = guarded(opt.search, inputs, output, sizes)
        if not ok:
            return Outcome([f"first search raised {t1}"], False, cls)
        check_tree(t1, inputs, output, sizes, viol, "first search")
        if viol:
            return Outcome(viol, False, cls)
        f1 = figures(t1)
        if f1[1] != spec["chi"]:
            viol.append(f"the searched tree's default cap is {f1[1]}, the optimizer was built with chi={spec['chi']}")
        if spec["how"] == "new_object" and directory:
            ok, opt2 = guarded(new_opt)
            if not ok:
                return Outcome([f"a second optimizer object on the directory raised {opt2}"], False, cls)
        else:
            opt2 = opt
        last = opt2.last_opt if opt2 is opt else None
        ok, t2 = guarded(opt2.search, inputs, output, sizes)
        if not ok:
            viol.append(f"second search (the hit) raised {t2}")
        else:
            check_tree(t2, inputs, output, sizes, viol, "cache hit")
            if not viol:
                f2 = figures(t2)
                if f2 != f1:
                    viol.append(
                        f"the tree served from the cache reports (ssa path, default chi, score, max_size, peak) {f2}, "
                        f"the tree that was stored for the same query {f1}"
                    )
            if opt2 is opt and opt.last_opt is not last:
                viol.append("a search ran although the very same query is in the cache")
    finally:
        if directory:
            shutil.rmtree(directory, ignore_errors=True)
    return Outcome(viol, True, cls + ["cache_hit"])


def run_case(spec, sub=None):
    if spec.get("kind") == "hyperc":
        return run_compressed(spec)
    return _run_case(spec, sub)


def _run_case(spec, sub=None):
    import cotengra as ctg
    from cotengra.pathfinders.path_basic import ReusableRandomGreedyOptimizer

    from .c05 import check_tree

    _register()
    warnings.filterwarnings("ignore")
    # the sub-optimizers draw from the global generator: pin it from the spec
    import random

    random.seed(sum(op.get("seed", 0) * (i + 1) for i, op in enumerate(spec["ops"])) + len(spec["ops"]))
    net = spec["net"]
    viol = []
    scratch = os.environ.get("VERIF_SCRATCH")
    directory = tempfile.mkdtemp(prefix="c14-", dir=scratch) if spec["directory"] else None
    cachedir = os.path.join(directory, "cache") if directory else None
    hits = 0
    queries_seen = set()
    cls = [f"kind={spec['kind']}", f"hash={spec['hash_method']}", "disk" if directory else "memory"]

    def new_opt(overwrite=False, cache_only=False):
        common = dict(
            directory=cachedir, overwrite=overwrite, hash_method=spec["hash_method"],
            cache_only=cache_only, directory_split=spec["directory_split"],
        )
        if spec["kind"] == "hyper":
            kw = dict(
                methods=[COUNT], optlib="random", max_repeats=spec["max_repeats"],
                parallel=False, minimize=spec["minimize"], on_trial_error="raise",
            )
            if spec["slicing"] and net["sizes"]:
                kw["slicing_opts"] = {"target_slices": 2, "max_repeats": 2}
            return ctg.ReusableHyperOptimizer(**common, **kw)
        return ReusableRandomGreedyOptimizer(
            **common, max_repeats=spec["max_repeats"], parallel=False, seed=7
        )

    # the name of an automatically named cache directory (directory=True) is
    # a function of the VALUE of the path relevant options: two equally
    # configured optimizers - one with literal option strings (shared objects),
    # one whose strings were made at run time, as when options come from a
    # command line or a config file - must name the same directory, or the
    # next session finds none of the stored contractions
    def opts_pair():
        k1 = "subtree_size"
        a = dict(reconf_opts={k1: 6}, slicing_reconf_opts={"target_size": 64, "reconf_opts": {k1: 6}})
        b = dict(
            reconf_opts={"".join(["subtree", "_size"]): 6},
            slicing_reconf_opts={"".join(["target_", "size"]): 64, "reconf_opts": {"".join(["subtree_", "size"]): 6}},
        )
        c_ = dict(methods=[COUNT], optlib="random", max_repeats=1, parallel=False, minimize=spec["minimize"])
        return (
            ctg.ReusableHyperOptimizer(**a, **c_).auto_hash_path_relevant_opts(),
            ctg.ReusableHyperOptimizer(**b, **c_).auto_hash_path_relevant_opts(),
        )

    viol0 = []
    if spec["kind"] == "hyper" and spec["directory"]:
        ok_, pair = guarded(opts_pair)
        if not ok_:
            viol0.append(f"auto_hash_path_relevant_opts raised {pair}")
        elif pair[0] != pair[1]:
            viol0.append(
                "two equally configured ReusableHyperOptimizers (option strings as literals vs made at run time) "
                f"name different automatic cache directories: opts{pair[0][:12]}.. vs opts{pair[1][:12]}.."
            )
    if viol0:
        return Outcome(viol0, False, cls)

    def score_of(tree):
        if spec["kind"] == "hyper":
            return tree.get_score(spec["minimize"])
        # random-greedy: entries carry the score of the tree under its
        # objective ('flops'), the quantity update_from_tree stores too
        return tree.get_score("flops")

    try:
        objs = {}
        # model: fingerprint -> list of (path, sliced, score) ever stored
        model = {}
        stored_b = set()  # relabelling-invariant identities of everything ever stored
        stored_b_scores = {}  # ... -> scores stored for them
        latest = {}  # fingerprint -> (path, sliced) that a store most recently wrote
        best_score = {}  # fingerprint -> lowest score read back under 'improved'

        def stored_score_on_disk(q):
            """read the stored score through a fresh cache_only optimizer"""
            if cachedir is None:
                return None
            o = new_opt(cache_only=True)
            _calls["n"] = 0
            ok, t = guarded(o.search, *q)
            if not ok:
                return None
            return score_of(t)

        for k, op in enumerate(spec["ops"]):
            what = f"op#{k} {op['op']}({op['variant']},{op['objmode']})"
            # "fresh-process reload" semantics: there is one live optimizer
            # object; ``new_object`` replaces it by a brand new one on the same
            # directory (older objects are never used again)
            if not objs or (op["op"] == "new_object" and cachedir is not None):
                objs["cur"] = new_opt()
            if op["op"] == "new_object":
                continue
            opt = objs["cur"]
            q = make_query(net, op["variant"], op["vk"], op["objmode"])
            fp = fingerprint_a(*q)
            fpb = fingerprint_b(*q)
            queries_seen.add(fp)
            inputs, output, sizes = q
            # what was asked, frozen (the containers may be edited later)
            asked_inputs, asked_output, asked_sizes = tuple(map(tuple, inputs)), tuple(output), dict(sizes)

            if op["op"] == "update_from_tree":
                ok, tree = guarded(
                    ctg.array_contract_tree, inputs, output, sizes,
                    optimize=ctg.pathfinders.path_random.RandomOptimizer(seed=op["seed"]), canonicalize=False,
                )
                if not ok:
                    viol.append(f"{what}: building a tree raised {tree}")
                    break
                if spec["kind"] == "hyper":
                    tree.set_default_objective(spec["minimize"])
                if op["seed"] % 3 == 0 and not (spec["kind"] == "hyper" and spec["slicing"]):
                    # 'for example, if you have manually improved it': a tree
                    # the caller sliced; the entry then carries sliced labels
                    cand = [
                        ix for ix in sorted(asked_sizes, key=str)
                        if sum(ix in t for t in asked_inputs) >= 2 and asked_sizes[ix] > 1
                    ]
                    if cand:
                        tree.remove_ind_(cand[op["seed"] % len(cand)])
                        cls.append("update_from_sliced_tree")
                before = stored_score_on_disk(q)
                ok, r = guarded(opt.update_from_tree, tree, overwrite=op["uft_overwrite"])
                if not ok:
                    viol.append(f"{what} raised {r}")
                    break
                ans = (tuple(map(tuple, tree.get_path())), tuple(tree.sliced_inds), tree.get_score())
                model.setdefault(fp, []).append(ans)
                stored_b.add(fpb)
                stored_b_scores.setdefault(fpb, []).append(ans[2])
                if spec["hash_method"] == "a":
                    mode = op["uft_overwrite"]
                    if fp not in latest or mode is True:
                        latest[fp] = ans
                    elif mode == "improved":
                        old_ans = latest[fp]
                        if old_ans is None or old_ans[2] is None:
                            latest[fp] = None  # cannot tell which one is kept
                        elif ans[2] < old_ans[2] - 1e-12:
                            latest[fp] = ans
                        elif abs(ans[2] - old_ans[2]) <= 1e-12:
                            latest[fp] = None
                after = stored_score_on_disk(q)
                if (
                    spec["hash_method"] == "a" and op["uft_overwrite"] == "improved"
                    and before is not None and after is not None and after > before + 1e-9
                ):
                    viol.append(f"{what}: update_from_tree(overwrite='improved') made the stored score worse: {before} -> {after}")
                    break
                continue

            opt.overwrite = op["overwrite"]
            opt.cache_only = op["cache_only"]
            before = stored_score_on_disk(q) if op["overwrite"] == "improved" else None
            _calls["n"] = 0
            last = opt.last_opt
            if op["op"] == "search":
                ok, res = guarded(opt.search, inputs, output, sizes)
            else:
                ok, res = guarded(opt, inputs, output, sizes)
            ntrials = _calls["n"]
            ran = (opt.last_opt is not last) if spec["kind"] == "rg" else ntrials > 0
            opt.cache_only = False
            known = fp in model

            if op["cache_only"]:
                if ran:
                    viol.append(f"{what}: cache_only=True but a search ran ({ntrials} trials)")
                    break
                if not ok:
                    if "KeyError" not in res:
                        viol.append(f"{what}: cache_only raised {res}")
                        break
                    if known and not op["overwrite"] and spec["hash_method"] == "a":
                        viol.append(f"{what}: cache_only missed although an equal query was stored before")
                        break
                    continue
            elif not ok:
                viol.append(f"{what} raised {res}")
                break

            if op["op"] == "search":
                tree = res
                check_tree(tree, asked_inputs, asked_output, asked_sizes, viol, what)
                if not viol and (
                    tuple(map(tuple, tree.inputs)) != asked_inputs or tuple(tree.output) != asked_output
                ):
                    viol.append(f"{what}: returned tree is not over the queried inputs/output")
                if not viol:
                    # the tree answers for itself with the objective it was
                    # stored under: its own score is the stored kind of score
                    ok2, own = guarded(tree.get_score)
                    if not ok2:
                        viol.append(f"{what}: tree.get_score() raised {own}")
                    elif abs(own - score_of(tree)) > 1e-9:
                        viol.append(
                            f"{what}: the returned tree scores itself {own} (its default objective), "
                            f"but under the optimizer's objective '{spec['minimize'] if spec['kind'] == 'hyper' else 'flops'}' - the one its entry "
                            f"is stored with - it scores {score_of(tree)}"
                        )
                if viol:
                    break
                ans = (tuple(map(tuple, tree.get_path())), tuple(tree.sliced_inds), score_of(tree))
            else:
                path = [tuple(s) for s in res]
                msg = ref.check_path_valid(path, len(inputs))
                if msg:
                    viol.append(f"{what}: returned path invalid: {msg}")
                    break
                ans = None

            if ran:
                if spec["hash_method"] == "a" and known and not op["overwrite"]:
                    viol.append(
                        f"{what}: a search ran ({ntrials} trials) although an equal query "
                        "(up to label order) is in the cache and overwrite=False"
                    )
                    break
                if ans is not None:
                    model.setdefault(fp, []).append(ans)
                else:
                    model.setdefault(fp, []).append(None)
                stored_b.add(fpb)
                stored_b_scores.setdefault(fpb, []).append(None if ans is None else ans[2])
                # what the search returned is what the cache now holds (under
                # 'improved' the better of old and new is both kept and returned)
                latest[fp] = ans if spec["kind"] == "hyper" or ans is None else (ans[0], ans[1], None)
            else:
                hits += 1
                if fpb not in stored_b:
                    # whatever the fingerprint: an entry may only be shared by
                    # queries that are the same contraction up to label names
                    viol.append(
                        f"{what}: served from the cache without search (hash_method={spec['hash_method']!r}), but "
                        "every stored entry belongs to a different contraction (other bonds / sizes): "
                        "the stored path and score were made for another network"
                    )
                    break
                if ans is not None and spec["kind"] == "hyper" and spec["hash_method"] == "b":
                    # relabelling-invariant fingerprint: the answer served must
                    # still be one that was stored for this contraction - its
                    # sliced labels belong to the query and its score is a stored one
                    labs_q = {ix for t in asked_inputs for ix in t}
                    known_scores = [x for x in stored_b_scores.get(fpb, []) if x is not None]
                    if any(ix not in labs_q for ix in ans[1]):
                        viol.append(
                            f"{what}: [hash_method='b'] served a tree sliced on {list(ans[1])}, labels the queried contraction does not have"
                        )
                        break
                    if known_scores and all(x is not None for x in stored_b_scores.get(fpb, [])) and not any(
                        abs(x - ans[2]) < 1e-9 for x in known_scores
                    ):
                        viol.append(
                            f"{what}: [hash_method='b'] the tree served from the cache scores {ans[2]}, the scores stored for "
                            f"this contraction are {known_scores}: the stored sliced labels were applied to other bonds"
                        )
                        break
                if spec["hash_method"] == "a" and ans is not None and latest.get(fp) is not None:
                    lt = latest[fp]
                    if lt[0] != ans[0] or tuple(lt[1]) != tuple(ans[1]):
                        viol.append(
                            f"{what}: cache hit returned order/sliced {ans[:2]} but the answer stored last "
                            f"for this contraction is {lt[:2]}"
                        )
                        break
                if spec["hash_method"] == "a":
                    if not known:
                        viol.append(f"{what}: served from the cache without search, but no equal query was ever stored")
                        break
                    if ans is not None:
                        stored = [a for a in model[fp] if a is not None]
                        if stored and not any(
                            a[0] == ans[0]
                            and tuple(a[1]) == tuple(ans[1])
                            and abs(a[2] - ans[2]) < 1e-9
                            for a in stored
                        ) and all(a is not None for a in model[fp]):
                            viol.append(
                                f"{what}: cache hit returned (path, sliced, score) {ans} which was never stored for this contraction: {stored}"
                            )
                            break
            if op["overwrite"] == "improved" and spec["hash_method"] == "a":
                after = stored_score_on_disk(q)
                if before is not None and after is not None and after > before + 1e-9:
                    viol.append(f"{what}: overwrite='improved' made the stored score worse: {before} -> {after}")
                    break
    finally:
        if directory:
            shutil.rmtree(directory, ignore_errors=True)
    if hits:
        cls.append("cache_hit")
    nontrivial = hits >= 1 and len(queries_seen) >= 2
    return Outcome(viol, nontrivial, cls, {"hits": hits, "ops": len(spec["ops"])})
