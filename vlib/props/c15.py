"""C15 - a crash while writing the on-disk cache never poisons later runs.

Fault enumeration: for each generated scenario the writer is first run once
un-crashed while every file-system mutation under the cache directory is
logged (mkdir / open-for-write / each write with its byte count / close /
replace / rename / unlink).  Then EVERY crash point is executed: "die before
operation k" for every k, and "die during write k after b bytes reached the
OS" for every 0 < b < len.  After each crash a fresh process (a forked child
that has never seen the directory) opens a new optimizer on it.
"""

import builtins
import io
import json
import os
import shutil
import sys
import tempfile
import warnings

from hypothesis import strategies as st

from .. import gen, ref
from ..harness import HarnessError, Outcome

ID = "C15"
LEVEL = "fault_enumeration"
RULE = (
    "Hypothesis draws scenarios (network, which of {first entry, second entry "
    "beside an existing one, overwrite of an existing entry, "
    "overwrite='improved' of an existing entry with later processes that also "
    "want to improve it}, how the writer dies {os._exit; torn down by an "
    "exception, so that its finally/with clauses still run}, "
    "directory_split of the writer, directory_split of the later reader in "
    "{same, 'auto'}, seeds). For each scenario ALL crash points of the "
    "writing process are enumerated from a logged dry run: death before each "
    "file-system mutation under the cache directory (mkdir, open, write into "
    "the user-space buffer, flush, close, replace/rename, unlink) and death "
    "inside each flush after every byte count that had reached the OS. Oracle, evaluated in a fresh process per "
    "crash point: a new optimizer on the directory answers the same query "
    "with a complete tree of that query and does not raise; if it ran no "
    "trial its path equals the old or the new stored answer exactly; a SECOND "
    "later process is then served, without failing and without searching, "
    "what the first one stored; entries "
    "stored before the crash are still served under cache_only with their "
    "old path. Non-trivial = crash point strictly after the first and "
    "before the last mutation (a partially performed store). Distinct = "
    "(scenario hash, crash point)."
)
ASSUMPTIONS = [
    "process death only (os._exit): no power loss, no torn pages; bytes handed to write() reach the file",
    "writers that bypass builtins.open/os.mkdir/os.replace/os.rename (e.g. os.open + os.write) would only get 'before operation' crash points",
    "the later process is a forked child with no state for that directory; in a quarter of the scenarios every 40th crash point is judged by a freshly spawned interpreter instead",
]

COUNT = "verif-count15"
_calls = {"n": 0}
EXIT_CRASH = 77


def _register():
    from cotengra.hyperoptimizers import hyper as H

    if COUNT in H._PATH_FNS:
        return

    def counting(inputs, output, size_dict, x=0, **_):
        import cotengra as ctg

        _calls["n"] += 1
        return ctg.pathfinders.path_random.RandomOptimizer(seed=x).search(inputs, output, size_dict)

    H.register_hyper_function(COUNT, counting, {"x": {"type": "INT", "min": 0, "max": 50}})


@st.composite
def scenarios(draw):
    n = draw(st.integers(3, 6))
    net = draw(
        gen.networks(
            min_n=n, max_n=n, max_rank=3, max_dim=4, alphabets=("ascii",),
            volume_limit=2**60, allow_size1=False, allow_repeat=False,
        )
    )
    return {
        "net": net,
        "scenario": draw(st.sampled_from(["first", "second", "overwrite", "improve"])),
        # how the writer dies: killed outright, or torn down by an exception
        # (its finally / with clauses still run)
        "death": draw(st.sampled_from(["exit", "exit", "raise"])),
        "split": draw(st.booleans()),
        # the later processes give the writer's directory_split again, or let
        # the library detect the layout ('auto', the default) - 'alternate':
        # every other crash point of the scenario
        "reader_split": draw(st.sampled_from(["same", "auto", "alternate", "alternate"])),
        "seed_old": draw(st.integers(0, 99)),
        "seed_new": draw(st.integers(100, 199)),
        # every k-th crash point is judged by a really fresh interpreter
        "spawn_every": draw(st.sampled_from([0, 0, 0, 40])),
    }


def strategy(tier, sub=None):
    return scenarios()


def budget(tier, sub=None):
    # examples = scenarios; every scenario enumerates all of its crash points
    return {"examples": 48 if tier == "quick" else 800, "shards": 16, "timeout": 3000 if tier == "quick" else 6 * 3600}


# ---------------------------------------------------------------------------
# crash injection (installed inside the forked writer child only)
# ---------------------------------------------------------------------------


class Dying(BaseException):
    """The writer is being torn down by an exception (Ctrl-C, a raising SIGTERM
    handler): unlike os._exit its ``finally`` / ``with`` clauses still run."""


class Injector:
    def __init__(self, root, crash=None, death="exit"):
        self.root = os.path.realpath(root)
        self.crash = crash  # None | (k, None) | (k, nbytes)
        self.k = 0
        self.log = []
        self.death = death
        self.dead = False

    def die(self):
        if self.death == "raise":
            # from now on nothing may be injected again: the unwinding code
            # (finally clauses) runs normally and the process then ends
            self.dead = True
            self.crash = None
            raise Dying()
        os._exit(EXIT_CRASH)

    def inside(self, path):
        try:
            p = os.path.realpath(os.fspath(path))
        except TypeError:
            return False
        return p == self.root or p.startswith(self.root + os.sep)

    def rel(self, path):
        return os.path.relpath(os.path.realpath(os.fspath(path)), self.root)

    def op(self, kind, path, nbytes=None):
        """Called before performing mutation number self.k."""
        k = self.k
        self.k += 1
        self.log.append([kind, self.rel(path), nbytes])
        if self.crash is not None and self.crash[0] == k and self.crash[1] is None:
            self.die()
        return k

    def install(self):
        inj = self
        real_open = builtins.open
        real_mkdir, real_replace, real_rename, real_unlink = os.mkdir, os.replace, os.rename, os.unlink

        class WFile:
            """Stands in for the buffered file object: bytes handed to write()
            stay in a user-space buffer (lost if the process dies) until a
            flush / close hands them to the OS, byte by byte as far as the
            crash point allows."""

            BUFSIZE = 8192

            def __init__(self, path, mode):
                raw_mode = mode.replace("b", "").replace("t", "")
                self.path = path
                inj.op("open:" + mode, path)
                self.raw = io.FileIO(path, raw_mode if raw_mode else "w")
                self.buf = bytearray()

            def _flush(self):
                if not self.buf:
                    return
                data = bytes(self.buf)
                k = inj.op("flush", self.path, len(data))
                if inj.crash is not None and inj.crash[0] == k and inj.crash[1] is not None:
                    self.raw.write(data[: inj.crash[1]])
                    self.buf.clear()
                    inj.die()
                n = 0
                while n < len(data):
                    n += self.raw.write(data[n:])
                self.buf.clear()

            def write(self, data):
                data = bytes(data)
                inj.op("write", self.path, len(data))
                self.buf += data
                if len(self.buf) > self.BUFSIZE:
                    self._flush()
                return len(data)

            def read(self, *a):
                self._flush()
                return self.raw.read(*a)

            def readline(self, *a):
                self._flush()
                return self.raw.readline(*a)

            def readinto(self, b):
                self._flush()
                return self.raw.readinto(b)

            def seek(self, *a):
                self._flush()
                return self.raw.seek(*a)

            def tell(self):
                return self.raw.tell() + len(self.buf)

            def flush(self):
                self._flush()

            def fileno(self):
                return self.raw.fileno()

            def close(self):
                if not self.raw.closed:
                    self._flush()
                    inj.op("close", self.path)
                    self.raw.close()

            def __enter__(self):
                return self

            def __exit__(self, *exc):
                self.close()
                return False

        def open_(file, mode="r", *a, **kw):
            if isinstance(file, (str, bytes, os.PathLike)) and any(c in mode for c in "wax+") and inj.inside(file):
                if "b" not in mode:
                    raise HarnessError("text-mode cache writes are not modelled")
                return WFile(os.fspath(file), mode)
            return real_open(file, mode, *a, **kw)

        def mkdir(path, *a, **kw):
            if inj.inside(path):
                inj.op("mkdir", path)
            return real_mkdir(path, *a, **kw)

        def replace(src, dst, *a, **kw):
            if inj.inside(dst) or inj.inside(src):
                inj.op("replace", dst)
            return real_replace(src, dst, *a, **kw)

        def rename(src, dst, *a, **kw):
            if inj.inside(dst) or inj.inside(src):
                inj.op("rename", dst)
            return real_rename(src, dst, *a, **kw)

        def unlink(path, *a, **kw):
            if inj.inside(path):
                inj.op("unlink", path)
            return real_unlink(path, *a, **kw)

        builtins.open = open_
        io.open = open_
        os.mkdir, os.replace, os.rename, os.unlink = mkdir, replace, rename, unlink
        try:
            import pathlib

            # pathlib caches references to io.open / os functions at import
            if hasattr(pathlib, "io"):
                pathlib.io.open = open_
        except Exception:
            pass


# ---------------------------------------------------------------------------
# child processes
# ---------------------------------------------------------------------------


def _fork(fn):
    """Run fn() in a forked child; returns (exit_status, json_result_or_None)."""
    r, w = os.pipe()
    sys.stdout.flush()
    sys.stderr.flush()
    pid = os.fork()
    if pid == 0:
        code = 1
        try:
            os.close(r)
            warnings.filterwarnings("ignore")
            res = fn()
            os.write(w, json.dumps(res, default=str).encode())
            code = 0
        except BaseException as e:  # noqa
            try:
                import traceback

                tb = traceback.extract_tb(e.__traceback__)
                where = ""
                for fr in reversed(tb):
                    if "cotengra" in fr.filename:
                        where = f"{os.path.basename(fr.filename)}:{fr.lineno} {fr.name}"
                        break
                os.write(w, json.dumps({"raised": f"{type(e).__name__}: {str(e)[:120]} @ {where}"}).encode())
                code = 3
            except BaseException:  # noqa
                code = 4
        finally:
            os._exit(code)
    os.close(w)
    chunks = []
    while True:
        b = os.read(r, 65536)
        if not b:
            break
        chunks.append(b)
    os.close(r)
    _, status = os.waitpid(pid, 0)
    code = os.waitstatus_to_exitcode(status)
    data = b"".join(chunks)
    try:
        res = json.loads(data.decode()) if data else None
    except ValueError:
        res = None
    return code, res


def make_opt(cachedir, split, seed, overwrite=False, cache_only=False):
    import cotengra as ctg

    return ctg.ReusableHyperOptimizer(
        directory=cachedir, directory_split=split, overwrite=overwrite, cache_only=cache_only,
        methods=[COUNT], optlib="random", max_repeats=2, parallel=False, seed=seed,
        on_trial_error="raise",
    )


def query_of(net, which):
    inputs = [tuple(t) for t in net["inputs"]]
    output = tuple(net["output"])
    sizes = dict(net["sizes"])
    if which == "other":
        # a different contraction: one more scalar tensor
        inputs = inputs + [()]
    return tuple(inputs), output, sizes


def do_search(cachedir, split, seed, q, overwrite=False, cache_only=False, crash=None, log=False, death="exit"):
    def fn():
        inj = None
        if crash is not None or log:
            inj = Injector(cachedir, crash, death=death)
            inj.install()
        _calls["n"] = 0
        try:
            opt = make_opt(cachedir, split, seed, overwrite=overwrite, cache_only=cache_only)
            tree = opt.search(*q)
        except Dying:
            # the exception has unwound the writer (its finally / with clauses
            # have run); the process is gone now
            os._exit(EXIT_CRASH)
        if inj is not None and inj.dead:
            # something swallowed the teardown exception and carried on
            os._exit(EXIT_CRASH)
        return {
            "path": [list(p) for p in tree.get_path()],
            "complete": bool(tree.is_complete()),
            "N": tree.N,
            "inputs_ok": tuple(map(tuple, tree.inputs)) == tuple(q[0]) and tuple(tree.output) == tuple(q[1]),
            "trials": _calls["n"],
            "log": inj.log if inj else None,
        }

    return _fork(fn)


def do_search_spawn(cachedir, split, seed, q, cache_only=False):
    """Same as a reading do_search, but in a freshly spawned interpreter."""
    import subprocess

    arg = json.dumps({"cachedir": cachedir, "split": split, "seed": seed, "q": [list(map(list, q[0])), list(q[1]), q[2]], "cache_only": cache_only})
    p = subprocess.run(
        [os.environ.get("VERIF_PYTHON", sys.executable), "-m", "vlib.c15reader", arg],
        capture_output=True, text=True, timeout=600,
        cwd=os.path.dirname(os.path.dirname(os.path.dirname(os.path.abspath(__file__)))),
    )
    try:
        return p.returncode, json.loads(p.stdout.strip().splitlines()[-1])
    except Exception:
        return p.returncode or 5, {"raised": f"unparsable reader output: {p.stdout[-200:]} {p.stderr[-300:]}"}


def list_crash_points(log):
    pts = []
    for k, (kind, path, nbytes) in enumerate(log):
        pts.append((k, None))
        if kind == "flush" and nbytes:
            for b in range(1, nbytes):
                pts.append((k, b))
    pts.append((len(log), None))  # after everything: no crash at all happens
    return pts


def run_scenario(spec, state=None, points=None, stop_at_first=True):
    """Enumerate crash points of one scenario. Returns Outcome; records every
    crash point into ``state`` if given."""
    _register()
    net = spec["net"]
    split = bool(spec["split"])
    reader_split = split if spec["reader_split"] == "same" else "auto"
    scenario = spec["scenario"]
    q_new = query_of(net, "main")
    q_old = query_of(net, "other") if scenario == "second" else q_new
    scratch = os.environ.get("VERIF_SCRATCH")
    base = tempfile.mkdtemp(prefix="c15-", dir=scratch)
    viol = []
    npoints = 0
    from ..harness import spec_hash

    sh = spec_hash(spec)
    try:
        # --- template directory with the pre-existing entry (if any)
        template = os.path.join(base, "template")
        os.makedirs(template)
        tcache = os.path.join(template, "cache")
        old = None
        if scenario in ("second", "overwrite", "improve"):
            code, old = do_search(tcache, split, spec["seed_old"], q_old)
            if code != 0 or not old or "raised" in old:
                return Outcome([f"storing the pre-existing entry failed: {old}"], False, ["setup_failed"])

        def fresh(name):
            d = os.path.join(base, name)
            shutil.rmtree(d, ignore_errors=True)
            shutil.copytree(template, d)
            return os.path.join(d, "cache")

        # --- logged dry run of the writer
        c = fresh("dry")
        w_over = {"overwrite": True, "improve": "improved"}.get(scenario, False)
        # a later process that also wants to improve the entry (scenario
        # 'improve') searches every time by design
        r_over = "improved" if scenario == "improve" else False
        death = spec.get("death", "exit")
        code, new = do_search(c, split, spec["seed_new"], q_new, overwrite=w_over, log=True)
        if code != 0 or not new or "raised" in new:
            return Outcome([f"uncrashed writer failed: {new}"], False, ["setup_failed"])
        log = new["log"]
        all_points = list_crash_points(log)
        todo = all_points if points is None else [tuple(p) for p in points]
        first_mut, last_mut = 0, len(log) - 1

        for pt in todo:
            k, b = pt
            if spec["reader_split"] == "alternate":
                reader_split = "auto" if (all_points.index(pt) if pt in all_points else 0) % 2 else split
            c = fresh("run")
            code, res = do_search(
                c, split, spec["seed_new"], q_new, overwrite=w_over, crash=(k, b), death=death
            )
            crashed = code == EXIT_CRASH
            if not crashed and k < len(log):
                raise HarnessError(f"crash point {pt} was not reached (exit {code}, {res}); log {log}")
            npoints += 1
            desc = f"crash {'before' if b is None else 'inside'} op {k}" + (
                f" {log[k]}" if k < len(log) else " (none: complete store)"
            ) + (f" after {b} bytes" if b is not None else "")
            pv = []
            # --- a later, fresh process on the same directory (a forked child
            # that never saw it; for some points a freshly spawned interpreter)
            spawn = spec.get("spawn_every") and (npoints % spec["spawn_every"] == 1)
            if spawn:
                code, r = do_search_spawn(c, reader_split, spec["seed_new"] + 1000, q_new)
            else:
                code, r = do_search(c, reader_split, spec["seed_new"] + 1000, q_new, overwrite=r_over)
            if code != 0 or r is None or "raised" in (r or {}):
                pv.append(f"{desc}: a later process on the directory fails: {r if r else 'exit ' + str(code)}")
            else:
                if not (r["complete"] and r["N"] == len(q_new[0]) and r["inputs_ok"]):
                    pv.append(f"{desc}: later process got a tree that is not a complete tree of the query")
                if r["trials"] == 0:
                    allowed = [new["path"]] + ([old["path"]] if (old and scenario in ("overwrite", "improve")) else [])
                    if r["path"] not in allowed:
                        pv.append(
                            f"{desc}: later process was served {r['path']} without searching; "
                            f"stored answers are {allowed}"
                        )
            # --- a second later process: whatever the first one did while
            # recovering (searching again, storing, promoting left-overs) must
            # leave the directory good for the next one as well
            if not pv and r is not None:
                code, r3 = do_search(c, reader_split, spec["seed_new"] + 2000, q_new, overwrite=r_over)
                if code != 0 or r3 is None or "raised" in (r3 or {}):
                    pv.append(f"{desc}: the SECOND later process on the directory fails: {r3 if r3 else 'exit ' + str(code)}")
                else:
                    if not (r3["complete"] and r3["N"] == len(q_new[0]) and r3["inputs_ok"]):
                        pv.append(f"{desc}: second later process got a tree that is not a complete tree of the query")
                    allowed3 = [new["path"], r["path"]] + ([old["path"]] if (old and scenario in ("overwrite", "improve")) else [])
                    if r3["trials"] == 0 and r3["path"] not in allowed3:
                        pv.append(
                            f"{desc}: second later process was served {r3['path']} without searching; "
                            f"stored answers are {allowed3}"
                        )
                    if r3["trials"] != 0 and reader_split == split and not r_over:
                        pv.append(
                            f"{desc}: second later process searched again ({r3['trials']} trials) although the first "
                            "later process had just answered (and stored) the same query"
                        )
            # --- entries stored before the crash
            if old is not None and not pv and scenario == "second":
                code, r2 = do_search(c, reader_split, 0, q_old, cache_only=True)
                if code != 0 or r2 is None or "raised" in (r2 or {}):
                    pv.append(f"{desc}: entry stored before the crash is no longer served: {r2}")
                elif r2["path"] != old["path"] or r2["trials"] != 0:
                    pv.append(f"{desc}: entry stored before the crash changed: {r2['path']} vs {old['path']}")
            if old is not None and not pv and scenario in ("overwrite", "improve") and reader_split == split and not r_over:
                # the overwritten entry must still be *some* complete stored answer
                code, r2 = do_search(c, reader_split, 0, q_new, cache_only=True)
                if code == 0 and r2 and "raised" not in r2 and r2["path"] not in (new["path"], old["path"]):
                    pv.append(f"{desc}: cache_only served {r2['path']}, neither the old nor the new answer")
            nontrivial = first_mut < k <= last_mut or (b is not None)
            if state is not None:
                cp = {"scenario": sh, "kind": scenario, "split": split, "reader_split": spec["reader_split"], "point": [k, b], "op": log[k] if k < len(log) else None}
                o = Outcome([], nontrivial, [f"scenario={scenario}", f"split={split}", f"reader_split={reader_split}", f"death={death}", "inside_write" if b is not None else "between_ops"] + (["reader=spawned_interpreter"] if spawn else ["reader=forked"]))
                state.record(cp, o)
            if pv:
                viol += pv
                if stop_at_first:
                    viol.append(f"(crash point {list(pt)} of {len(all_points)}; log {log})")
                    return Outcome(viol, True, [], {"crash_points": npoints, "fail_point": list(pt)})
    finally:
        shutil.rmtree(base, ignore_errors=True)
    return Outcome(viol, True, [], {"crash_points": npoints})


def run_case(spec, sub=None):
    pts = spec.get("points")
    inner = {k: v for k, v in spec.items() if k != "points"}
    return run_scenario(inner, points=pts)


def replay(spec):
    return run_case(spec)


def shard_main(tier, seed, shard, nshards, state):
    import hypothesis
    from hypothesis import HealthCheck, Phase, given, settings
    from hypothesis import seed as hseed

    nb = max(1, budget(tier)["examples"] // nshards)

    class Stop(Exception):
        pass

    # the discrete dimensions of a scenario are covered systematically: the
    # i-th scenario of this shard takes the next cell of the grid (48 cells =
    # one quick run), Hypothesis draws the network and the seeds for it
    grid = [
        (sc, sp, rs, de)
        for sc in ("first", "second", "overwrite", "improve")
        for sp in (False, True)
        for rs in ("same", "auto", "alternate")
        for de in ("exit", "raise")
    ]
    counter = {"i": 0}

    @hseed(int(seed) * 1000 + shard)
    @settings(
        max_examples=nb, database=None, deadline=None, report_multiple_bugs=False,
        suppress_health_check=list(HealthCheck), phases=(Phase.generate,),
        verbosity=hypothesis.Verbosity.quiet,
    )
    @given(strategy(tier))
    def test(spec):
        # (a spec that Hypothesis executes again - to confirm a failure - gets
        # the cell it had)
        from ..harness import spec_hash

        h_ = spec_hash(spec)
        if h_ not in counter:
            counter[h_] = counter["i"]
            counter["i"] += 1
        cell = grid[(shard + counter[h_] * nshards + int(seed)) % len(grid)]
        spec = dict(spec, scenario=cell[0], split=cell[1], reader_split=cell[2], death=cell[3])
        out = run_scenario(spec, state=state)
        state.stats["scenarios"] = state.stats.get("scenarios", 0) + 1
        if out.violations:
            fp = out.stats.get("fail_point")
            small = dict(spec)
            if fp is not None:
                small["points"] = [fp]
            state.fail = (small, out.violations)
            raise Stop()

    try:
        test()
    except Stop:
        pass


def coverage_extra(tier, stats):
    return {
        "exhaustive": False,
        "exhaustive_within_each_scenario": True,
        "exhaustive_note": "the grid scenario kind x split x reader_split x death (48 cells) is covered once per quick run (networks and seeds are generated); within each generated scenario every crash point (before each file-system mutation and after every byte of every write) was executed",
    }
