"""C06 - slices partition the contraction exactly and are reassembled correctly."""

import itertools
import math

import numpy as np
from hypothesis import strategies as st

from .. import gen, ref
from ..harness import Outcome, guarded

ID = "C06"
LEVEL = "exploration"
RULE = (
    "Hypothesis draws (network, random tree, ordered list of <=4 labels to "
    "slice or project with product of sliced sizes <=96; inner, output, "
    "hyper and single-tensor labels in any removal order). For each case ALL "
    "slice numbers are checked: (1) slice_key(i), i<nslices, is a bijection "
    "onto the product of sliced ranges (projected labels pinned); (2) "
    "contract_slice(i) == dense reference with the labels fixed to "
    "slice_key(i); (3) gather_slices of the reference per-slice values == "
    "reference full contraction; (4) gen_output_chunks(with_key) yields "
    "nchunks chunks with distinct keys covering the sliced output ranges, "
    "each equal to the reference section; (5) tree.contract == reference, "
    "also with strip_exponent=True (mantissa x 10**exponent, rel. 1e-9); (6) in "
    "a quarter of the cases one operand is handed over with extent 1 along a "
    "label that others carry in full (broadcast), incl. when that label is "
    "sliced; (7) in half of the cases the tree is also given to array_contract / "
    "array_contract_expression as optimize and must yield the same section. "
    "Non-trivial = >=2 removed labels including an output label or a "
    "projection. Distinct = sha1(spec)."
)
ASSUMPTIONS = ["numpy backend; single-character labels; exact integer-valued arrays"]


@st.composite
def cases(draw, max_n):
    net = draw(gen.networks(min_n=2, max_n=max_n, volume_limit=2**16, output_prob=0.5))
    path = draw(gen.linear_paths(len(net["inputs"])))
    removed = draw(gen.removed_lists(net, max_k=4, max_prod=96))
    return {
        "net": net,
        "path": path,
        "removed": removed,
        "aseed": draw(st.integers(0, 999)),
        "dtype": draw(st.sampled_from(["f", "c"])),
        "prefer_einsum": draw(st.booleans()),
        "strip": draw(st.booleans()),
        # the sliced set may be reached indirectly: positions (into the removal
        # list) of labels that are restored again, via restore_ind_ or via a copy
        "restore": draw(st.lists(st.integers(0, 3), max_size=2, unique=True)) if removed and draw(st.integers(0, 2)) == 0 else [],
        "restore_via_copy": draw(st.booleans()),
        # positions of labels that are restored and removed again the OTHER way
        # (sliced <-> projected), after the tree was used once
        "flip": draw(st.lists(st.integers(0, 3), max_size=2, unique=True)) if removed and draw(st.integers(0, 2)) == 0 else [],
        "flip_value": draw(st.integers(0, 7)),
        "use_before_flip": draw(st.booleans()),
        # number of emulated MPI ranks for the contract_mpi route (0 = skip)
        "mpi_size": draw(st.sampled_from([0, 0, 1, 2, 3, 4, 5, 6, 7])),
        # one operand is handed over with extent 1 along one of its labels that
        # other tensors carry with the full size (numpy-style broadcasting, which
        # the contraction itself supports) - [tensor seed, label seed] or None
        "stretch": [draw(st.integers(0, 50)), draw(st.integers(0, 50))] if draw(st.integers(0, 3)) == 0 else None,
        # also hand the (sliced / projected) tree to the high-level interface
        "via_interface": draw(st.sampled_from([None, None, "array_contract", "expression"])),
    }


def strategy(tier, sub=None):
    return st.one_of(cases(5), cases(8))


def budget(tier, sub=None):
    return {"examples": 24000 if tier == "quick" else 600000, "shards": 16}


def run_case(spec, sub=None):
    import cotengra as ctg

    net = spec["net"]
    inputs = [tuple(t) for t in net["inputs"]]
    output = tuple(net["output"])
    sizes = dict(net["sizes"])
    removed = [(ix, p) for ix, p in spec["removed"]]
    arrays = ref.make_arrays(inputs, sizes, spec["aseed"], spec["dtype"])
    viol = []
    # the arrays cotengra is given; ``arrays`` stay the full-size ones the
    # reference uses
    given = list(arrays)
    stretched = None
    if spec.get("stretch"):
        ts, ls = spec["stretch"]
        cnt_ = {}
        for t in inputs:
            for ix in set(t):
                cnt_[ix] = cnt_.get(ix, 0) + 1
        opts = [
            (i, ix) for i, t in enumerate(inputs) for ix in sorted(set(t))
            if t.count(ix) == 1 and cnt_[ix] >= 2 and sizes[ix] >= 2
        ]
        if opts:
            i, ix = opts[(ts * 7 + ls) % len(opts)]
            ax = inputs[i].index(ix)
            small = np.take(arrays[i], [0], axis=ax)
            arrays = list(arrays)
            arrays[i] = np.ascontiguousarray(np.repeat(small, sizes[ix], axis=ax))
            given = list(arrays)
            given[i] = small
            stretched = (i, ix)

    ok, tree = guarded(
        ctg.ContractionTree.from_path, inputs, output, sizes,
        path=[tuple(p) for p in spec["path"]],
    )
    if not ok:
        return Outcome([f"from_path raised {tree}"], False, ["error"])
    for ix, p in removed:
        ok, r = guarded(tree.remove_ind_, ix, project=p)
        if not ok:
            return Outcome([f"remove_ind_ raised {r}"], False, ["error"])

    back = []
    for k_ in spec.get("restore", []):
        if k_ < len(removed) and removed[k_][0] not in back:
            back.append(removed[k_][0])
    for ix in back:
        if spec.get("restore_via_copy"):
            ok, r = guarded(tree.restore_ind, ix)
            if ok:
                tree = r
        else:
            ok, r = guarded(tree.restore_ind_, ix)
        if not ok:
            return Outcome([f"restore_ind raised {r}"], False, ["error"])
    removed = [(ix, p) for ix, p in removed if ix not in back]
    flips = [k_ for k_ in spec.get("flip", []) if k_ < len(removed)]
    if flips:
        if spec.get("use_before_flip"):
            # the tree is used first (slice keys, a full contraction)
            guarded(lambda: [tree.slice_key(i) for i in range(tree.nslices)])
            guarded(tree.contract, given)
        for k_ in flips:
            ix, p = removed[k_]
            newp = (spec.get("flip_value", 0) % sizes[ix]) if p is None else None
            if newp is None and math.prod(sizes[j] for j, q_ in removed if q_ is None) * sizes[ix] > 96:
                continue
            ok, r = guarded(tree.restore_ind_, ix)
            if ok:
                ok, r = guarded(tree.remove_ind_, ix, project=newp)
            if not ok:
                return Outcome([f"restore_ind_ / remove_ind_ raised {r}"], False, ["error"])
            removed[k_] = (ix, newp)
    # (the tree keeps sliced labels sorted: output ones first)
    proj = {ix: p for ix, p in removed if p is not None}
    sliced = [ix for ix, p in removed if p is None]
    nsl = math.prod(sizes[ix] for ix in sliced)
    kw = {"prefer_einsum": spec["prefer_einsum"]}

    # (1) bijection
    ok, keys = guarded(lambda: [dict(tree.slice_key(i)) for i in range(tree.nslices)])
    if not ok:
        return Outcome([f"slice_key raised {keys}"], False, ["error"])
    if tree.nslices != nsl:
        viol.append(f"nslices {tree.nslices} != product of sliced sizes {nsl}")
    want = set()
    for vals in itertools.product(*(range(sizes[ix]) for ix in sliced)):
        k = dict(zip(sliced, vals))
        k.update(proj)
        want.add(tuple(sorted(k.items())))
    got = [tuple(sorted(k.items())) for k in keys]
    if len(set(got)) != len(got):
        viol.append("slice_key is not injective over range(nslices)")
    elif set(got) != want:
        viol.append("slice_key does not cover the product of the sliced ranges")
    if viol:
        return Outcome(viol, False, ["bad_keys"])

    # (2) every slice
    true_slices = []
    for i, key in enumerate(keys):
        exp = ref.dense_ref(inputs, output, sizes, arrays, fixed=key)
        true_slices.append(exp)
        ok, g = guarded(tree.contract_slice, given, i, **kw)
        if not ok:
            viol.append(f"contract_slice({i}) raised {g}")
            break
        g = np.asarray(g)
        if g.shape != exp.shape or not np.array_equal(g, exp):
            viol.append(
                f"contract_slice({i}) with key {key}: shape {g.shape} vs {exp.shape}, "
                "value differs from the fixed-label reference"
            )
            break

    full = ref.dense_ref(inputs, output, sizes, arrays, fixed=proj)
    full_shape = tuple(1 if ix in proj else sizes[ix] for ix in output)

    def cmp_full(g, what):
        g = np.asarray(g)
        if tuple(g.shape) not in (full_shape, tuple(full.shape)):
            viol.append(f"{what}: shape {tuple(g.shape)} != declared {full_shape}")
        elif not np.array_equal(g.reshape(full.shape), full):
            viol.append(f"{what}: value differs from reference")

    # (3) gather of the true slices
    if not viol and removed:
        ok, g = guarded(tree.gather_slices, [x.copy() for x in true_slices])
        if not ok:
            viol.append(f"gather_slices raised {g}")
        else:
            cmp_full(g, "gather_slices(reference slices)")

    # (4) output chunks
    if not viol:
        ok, chunks = guarded(
            lambda: list(tree.gen_output_chunks(given, with_key=True, **kw))
        )
        if not ok:
            viol.append(f"gen_output_chunks raised {chunks}")
        else:
            out_sliced = [ix for ix in sliced if ix in output]
            out_proj = {ix: p for ix, p in proj.items() if ix in output}
            nchunks = math.prod(sizes[ix] for ix in out_sliced)
            if tree.nchunks != nchunks:
                viol.append(f"nchunks {tree.nchunks} != {nchunks}")
            if len(chunks) != nchunks:
                viol.append(f"{len(chunks)} chunks generated, expected {nchunks}")
            seen = set()
            for chunk, key in chunks:
                kk = tuple(sorted(key.items()))
                if kk in seen:
                    viol.append(f"chunk key {key} generated twice")
                    break
                seen.add(kk)
                if set(key) != set(out_sliced) | set(out_proj):
                    viol.append(f"chunk key {key} is not over the sliced output labels")
                    break
                fixed = dict(proj)
                fixed.update(key)
                exp = ref.dense_ref(inputs, output, sizes, arrays, fixed=fixed)
                c = np.asarray(chunk)
                if c.shape != exp.shape or not np.array_equal(c, exp):
                    viol.append(f"chunk for key {key} differs from the reference section")
                    break
            if not viol:
                want_keys = set()
                for vals in itertools.product(*(range(sizes[ix]) for ix in out_sliced)):
                    k = dict(zip(out_sliced, vals))
                    k.update(out_proj)
                    want_keys.add(tuple(sorted(k.items())))
                if seen != want_keys:
                    viol.append("chunk keys do not tile the sliced output ranges exactly once")

    # (5b) the same reassembly with stripped exponents (strictly positive arrays,
    # so that no slice is identically zero - the premise of stripping)
    if not viol and spec.get("strip") and removed:
        pos = [np.abs(a) + 1 for a in arrays]
        full_p = ref.dense_ref(inputs, output, sizes, pos, fixed=proj)
        ok, g = guarded(tree.contract, pos, strip_exponent=True, **kw)
        if not ok:
            viol.append(f"contract(strip_exponent=True) raised {g}")
        elif not (isinstance(g, tuple) and len(g) == 2):
            viol.append("contract(strip_exponent=True) did not return (mantissa, exponent)")
        else:
            m, e = g
            val = np.asarray(m) * 10.0 ** float(e)
            if tuple(val.shape) not in (full_shape, tuple(full_p.shape)):
                viol.append(f"contract(strip_exponent=True): shape {tuple(val.shape)} != declared {full_shape}")
            else:
                tol = 1e-9 * float(np.max(np.abs(full_p))) if full_p.size else 0.0
                if full_p.size and not np.all(np.abs(val.reshape(full_p.shape) - full_p) <= tol):
                    viol.append("contract(strip_exponent=True): mantissa x 10**exponent differs from the reference")

    # (4b) the MPI route: every rank sums its share of the slices and the
    # shares are reduced; emulated with a harness-owned communicator, one rank
    # after the other (only defined when no sliced label is an output label)
    if not viol and sliced and not any(ix in output for ix, _ in removed) and spec.get("mpi_size"):
        size_ = 1 + (spec["mpi_size"] - 1) % max(1, min(nsl, 7))

        class Comm:
            def __init__(self, rank):
                self.rank, self.size, self.sent = rank, size_, None

            def Allreduce(self, sendbuf, recvbuf):
                self.sent = np.array(sendbuf, copy=True)
                recvbuf[...] = 0

            def Reduce(self, sendbuf, recvbuf, root=0):
                self.sent = np.array(sendbuf, copy=True)

        total, okall = None, True
        for rank in range(size_):
            comm = Comm(rank)
            ok, g = guarded(tree.contract_mpi, given, comm=comm, **kw)
            if not ok:
                viol.append(f"contract_mpi(rank {rank} of {size_}) raised {g}")
                okall = False
                break
            if comm.sent is None:
                viol.append(f"contract_mpi(rank {rank} of {size_}) never reduced its share")
                okall = False
                break
            total = comm.sent if total is None else total + comm.sent
        if okall:
            # (the buffers handed to the reduction are at least 1-d: a scalar
            # result arrives with shape (1,))
            if total.shape == (1,) and tuple(full.shape) == ():
                total = total.reshape(())
            cmp_full(total, f"contract_mpi over {size_} ranks (shares summed)")

    # (5) full contract
    if not viol:
        ok, g = guarded(tree.contract, given, **kw)
        if not ok:
            viol.append(f"contract raised {g}")
        else:
            cmp_full(g, "contract")

    # (6) the same tree handed to the high-level interface as ``optimize``:
    # its sliced and projected labels are part of what it says
    if not viol and spec.get("via_interface"):
        if spec["via_interface"] == "array_contract":
            ok, g = guarded(ctg.array_contract, given, inputs, output, optimize=tree, **kw)
            what = "array_contract(optimize=tree)"
        else:
            ok, g = guarded(
                lambda: ctg.array_contract_expression(inputs, output, sizes, optimize=tree, **kw)(*given)
            )
            what = "array_contract_expression(optimize=tree)(*arrays)"
        if not ok:
            viol.append(f"{what} raised {g}")
        else:
            cmp_full(g, what)

    cls = gen.net_classes(net)
    has_out = any(ix in output for ix, _ in removed)
    nontrivial = len(removed) >= 2 and (has_out or bool(proj))
    tags = sorted(cls) + [f"removed={len(removed)}", f"nslices<={min(nsl, 96) // 8 * 8 + 8}"]
    if proj:
        tags.append("projected")
    if back:
        tags.append("some_restored")
    if flips:
        tags.append("sliced_projected_flipped")
    if spec.get("mpi_size") and sliced and not any(ix in output for ix, _ in removed):
        tags.append("mpi_route")
    if has_out:
        tags.append("output_removed")
    if any(ix not in output for ix, _ in removed):
        tags.append("inner_removed")
    cnt = {}
    for t in inputs:
        for ix in set(t):
            cnt[ix] = cnt.get(ix, 0) + 1
    if any(cnt[ix] >= 3 for ix, _ in removed):
        tags.append("hyper_removed")
    if any(cnt[ix] == 1 for ix, _ in removed):
        tags.append("single_tensor_removed")
    if stretched:
        tags.append("broadcast_operand")
        if any(ix == stretched[1] for ix, _ in removed):
            tags.append("broadcast_label_removed")
    if spec.get("via_interface"):
        tags.append(f"interface:{spec['via_interface']}")
        if len(inputs) == 2:
            tags.append("interface_two_terms")
    return Outcome(viol, nontrivial, tags, {"slices_checked": len(keys)})
