"""C18 - internal cost simulators agree; optimizers report the cost of what they return."""

import math

from hypothesis import strategies as st

from .. import gen, ref
from ..harness import Outcome, guarded

ID = "C18"
LEVEL = "exploration"
RULE = (
    "Hypothesis draws (network, random contraction order). The same SSA path "
    "is replayed step by step through (1) ContractionTree, (2) "
    "HyperGraph.contract (+ compute_contracted_inds / candidate_contraction_"
    "size / contract_pair_cost before each step) on networks it supports (no "
    "repeated label in a tensor, every label on >=2 tensors or in the "
    "output), (3) the raw ContractionProcessor (compute_contracted / "
    "compute_flops / compute_size, single-tensor simplification only), (4) "
    "the annealer's compute_contracted_info chained on its own outputs. "
    "Oracle: per step the label sets, appearance counts (non-root), sizes and "
    "flops are identical among the simulators and equal to the independent "
    "CostRef. Second half: RandomGreedyOptimizer.best_flops (10**x) == "
    "total_flops of the tree it returns; the score stored by a Reusable* "
    "optimizer == score of the tree rebuilt from the stored path. "
    "Non-trivial = >=4 tensors with a hyper/batch/repeated label, or an "
    "optimizer-report case. Distinct = sha1(spec)."
)
ASSUMPTIONS = ["hypergraph arm restricted to ordinary networks (documented domain)"]


@st.composite
def sim_cases(draw):
    ordinary = draw(st.booleans())
    net = draw(
        gen.networks(
            min_n=2, max_n=9, volume_limit=2**60,
            allow_repeat=not ordinary, allow_single=not ordinary,
        )
    )
    if ordinary:
        # make every label that sits on one tensor only an output label
        cnt = {}
        for t in net["inputs"]:
            for ix in t:
                cnt[ix] = cnt.get(ix, 0) + 1
        for ix, c in cnt.items():
            if c == 1 and ix not in net["output"]:
                net["output"].append(ix)
    path = draw(gen.linear_paths(len(net["inputs"])))
    return {"kind": "sim", "net": net, "path": path, "ordinary": ordinary}


@st.composite
def report_cases(draw):
    net = draw(gen.networks(min_n=2, max_n=10, volume_limit=2**60))
    if draw(st.integers(0, 2)) == 0 and len(net["inputs"]) >= 2:
        # a label carried by every tensor (batch-like)
        for t in net["inputs"]:
            t.append("Z")
        net["sizes"]["Z"] = draw(st.integers(2, 4))
        if draw(st.booleans()):
            net["output"].append("Z")
    return {
        "kind": "report",
        "net": net,
        "which": draw(st.sampled_from(["random_greedy", "reusable_rg", "reusable_hyper"])),
        "seed": draw(st.integers(0, 999)),
        "max_repeats": draw(st.integers(1, 6)),
        # simplify=False is only documented for inputs that are already in
        # simplified form, which these networks are not
        "simplify": True,
        "minimize": draw(st.sampled_from(["flops", "size", "write", "combo"])),
        "slicing": draw(st.booleans()),
        # further calls on the same RandomGreedyOptimizer object
        "again": draw(st.lists(st.sampled_from(["search", "call"]), max_size=3)),
    }


def strategy(tier, sub=None):
    return st.one_of(sim_cases(), sim_cases(), report_cases())


def budget(tier, sub=None):
    return {"examples": 32000 if tier == "quick" else 1000000, "shards": 16}


def run_sim(spec):
    import cotengra as ctg
    from cotengra.hypergraph import HyperGraph
    from cotengra.pathfinders import path_basic as pb
    from cotengra.pathfinders.path_simulated_annealing import compute_contracted_info

    net = spec["net"]
    inputs = [tuple(t) for t in net["inputs"]]
    output = tuple(net["output"])
    sizes = dict(net["sizes"])
    n = len(inputs)
    ssa = ref.linear_to_ssa_ref(spec["path"], n)
    steps = ref.ssa_nodes(ssa, n)
    cr = ref.CostRef(inputs, output, sizes)
    viol = []
    root = frozenset(range(n))

    def want(P, L, R):
        legs = cr.legs(P)
        return (
            dict(legs) if P != root else {ix: None for ix in legs},
            cr.size(P),
            cr.flops(L, R),
        )

    # (1) tree
    ok, tree = guarded(ctg.ContractionTree.from_path, inputs, output, sizes, ssa_path=ssa)
    if not ok:
        return Outcome([f"from_path raised {tree}"], False, ["error"])

    def cmp(name, k, P, L, R, legs, size, flops, counts=True):
        wl, ws, wf = want(P, L, R)
        if set(legs) != set(wl):
            viol.append(f"{name} step {k}: labels {sorted(legs)} != definition {sorted(wl)}")
            return False
        if counts and P != root and legs is not None and isinstance(legs, dict):
            if any(legs[ix] != wl[ix] for ix in wl):
                viol.append(f"{name} step {k}: appearance counts {legs} != {wl}")
                return False
        if size != ws:
            viol.append(f"{name} step {k}: size {size} != definition {ws}")
            return False
        if flops is not None and flops != wf:
            viol.append(f"{name} step {k}: flops {flops} != definition {wf}")
            return False
        return True

    for k, (P, L, R) in enumerate(steps):
        ok, r = guarded(lambda: (dict(tree.get_legs(P)), tree.get_size(P), tree.get_flops(P)))
        if not ok:
            viol.append(f"tree step {k} raised {r}")
            break
        if not cmp("tree", k, P, L, R, *r):
            break

    # (4) annealing evaluator, chained on its own outputs
    if not viol:
        legs_of = {i: dict(tree.get_legs(frozenset([i]))) for i in range(n)}
        for k, ((i, j), (P, L, R)) in enumerate(zip(ssa, steps)):
            ok, r = guarded(compute_contracted_info, legs_of[i], legs_of[j], tree.appearances, sizes)
            if not ok:
                viol.append(f"compute_contracted_info step {k} raised {r}")
                break
            legsab, cost, size = r
            legs_of[n + k] = legsab
            if not cmp("compute_contracted_info", k, P, L, R, legsab, size, cost):
                break

    # (3) raw processor (single-tensor simplification only)
    if not viol:
        def run_cp():
            cp = pb.ContractionProcessor(inputs, output, sizes, track_flops=True)
            inv = {v: k for k, v in cp.indmap.items()}
            cp.simplify_single_terms()
            cur = {i: i for i in range(n)}
            for pos, s in enumerate(cp.ssa_path):
                cur[s[0]] = n + pos
            base = cp.ssa
            out = []
            for k, (i, j) in enumerate(ssa):
                a, b = cur[i], cur[j]
                il, jl = cp.nodes[a], cp.nodes[b]
                flops = pb.compute_flops(il, jl, cp.sizes)
                new = pb.compute_contracted(il, jl, cp.appearances)
                c = cp.contract_nodes(a, b)
                got = cp.nodes[c]
                if tuple(got) != tuple(new):
                    raise AssertionError("contract_nodes disagrees with compute_contracted")
                cur[n + k] = c
                out.append(({inv[ix]: cnt for ix, cnt in got}, pb.compute_size(got, cp.sizes), flops))
            return out, cp.flops

        ok, r = guarded(run_cp)
        if not ok:
            viol.append(f"ContractionProcessor replay raised {r}")
        else:
            rows, total = r
            for k, ((P, L, R), row) in enumerate(zip(steps, rows)):
                if not cmp("ContractionProcessor", k, P, L, R, *row):
                    break
            if not viol and total != cr.stats(steps)["flops"]:
                viol.append(f"ContractionProcessor tracked flops {total} != definition {cr.stats(steps)['flops']}")

    # (2) hypergraph
    if not viol and spec["ordinary"]:
        def run_hg():
            hg = HyperGraph(inputs, output, sizes)
            cur = {i: i for i in range(n)}
            out = []
            for k, (i, j) in enumerate(ssa):
                a, b = cur[i], cur[j]
                pre_inds = set(hg.compute_contracted_inds((a, b)))
                pre_size = hg.candidate_contraction_size(a, b)
                cost = hg.contract_pair_cost(a, b)
                c = hg.contract(a, b)
                cur[n + k] = c
                inds = set(hg.get_node(c))
                out.append((inds, hg.node_size(c), cost, pre_inds, pre_size))
            return out

        ok, r = guarded(run_hg)
        if not ok:
            viol.append(f"HyperGraph replay raised {r}")
        else:
            for k, ((P, L, R), (inds, size, cost, pre_inds, pre_size)) in enumerate(zip(steps, r)):
                if not cmp("HyperGraph.contract", k, P, L, R, inds, size, cost, counts=False):
                    break
                if pre_inds != inds or pre_size != size:
                    viol.append(
                        f"HyperGraph step {k}: compute_contracted_inds/candidate_contraction_size "
                        f"({sorted(pre_inds)}, {pre_size}) != contract result ({sorted(inds)}, {size})"
                    )
                    break

    cls = sorted(gen.net_classes(net) & {"hyper", "repeat", "batch_output", "on_all", "single_summed", "scalar", "disconnected"})
    cls.append("ordinary" if spec["ordinary"] else "general")
    nontrivial = n >= 4 and bool(set(cls) & {"hyper", "repeat", "batch_output", "on_all"})
    return Outcome(viol, nontrivial, ["kind=sim"] + cls, {"steps": len(steps)})


def run_report(spec):
    import cotengra as ctg
    from cotengra.pathfinders import path_basic as pb

    net = spec["net"]
    inputs = [tuple(t) for t in net["inputs"]]
    output = tuple(net["output"])
    sizes = dict(net["sizes"])
    n = len(inputs)
    viol = []
    which = spec["which"]
    cr = ref.CostRef(inputs, output, sizes)

    def true_flops(tree):
        steps = [(p, l, r) for p, l, r in tree.traverse()]
        return cr.stats(steps)["flops"]

    if which == "random_greedy":
        def go():
            opt = pb.RandomGreedyOptimizer(
                max_repeats=spec["max_repeats"], seed=spec["seed"],
                simplify=spec["simplify"], parallel=False,
            )
            tree = opt.search(inputs, output, sizes)
            # the same optimizer object asked again about the same contraction
            # (it keeps the best over all its calls): what it reports must be
            # the cost of what it returns NOW
            for again in spec.get("again", []):
                if again == "search":
                    tree = opt.search(inputs, output, sizes)
                else:
                    path = opt(inputs, output, sizes)
                    tree = ctg.ContractionTree.from_path(inputs, output, sizes, path=path)
            return opt.best_flops, tree

        ok, r = guarded(go)
        if not ok:
            viol.append(f"RandomGreedyOptimizer.search raised {r}")
        else:
            bf, tree = r
            tf = true_flops(tree)
            if tree.total_flops() != tf:
                viol.append(f"tree.total_flops {tree.total_flops()} != definition {tf}")
            if not math.isclose(10**bf, tf, rel_tol=1e-9):
                viol.append(
                    f"RandomGreedyOptimizer reports best_flops=10**{bf:.6f}={10**bf:.6g} "
                    f"but the tree it returns costs {tf}"
                )
    elif which == "reusable_rg":
        def go():
            opt = pb.ReusableRandomGreedyOptimizer(
                max_repeats=spec["max_repeats"], seed=spec["seed"],
                simplify=spec["simplify"], parallel=False,
            )
            t1 = opt.search(inputs, output, sizes)
            (con,) = opt._cache._mem_cache.values()
            t2 = opt.search(inputs, output, sizes)  # rebuilt from the stored path
            return con, t1, t2

        ok, r = guarded(go)
        if not ok:
            viol.append(f"ReusableRandomGreedyOptimizer raised {r}")
        else:
            con, t1, t2 = r
            tf = true_flops(t2)
            if t2.total_flops() != tf:
                viol.append(f"tree.total_flops {t2.total_flops()} != definition {tf}")
            # the stored score is the score of the tree rebuilt from the stored
            # path - in the units every other writer of the cache
            # (update_from_tree, overwrite='improved') uses: tree.get_score()
            if not math.isclose(con["score"], t2.get_score(), rel_tol=1e-9, abs_tol=1e-12):
                viol.append(
                    f"stored score {con['score']:.6f} != score {t2.get_score():.6f} (flops {tf}) of the tree rebuilt "
                    "from the stored path"
                )
            # ... so a strictly cheaper tree offered through update_from_tree is
            # taken, and a strictly dearer one is not
            if not viol and n >= 3:
                def offer():
                    other = ctg.array_contract_tree(
                        inputs, output, sizes, canonicalize=False,
                        optimize=ctg.pathfinders.path_random.RandomOptimizer(seed=spec["seed"]),
                    )
                    opt2 = pb.ReusableRandomGreedyOptimizer(max_repeats=spec["max_repeats"], seed=spec["seed"], parallel=False)
                    ta = opt2.search(inputs, output, sizes)
                    opt2.update_from_tree(other, overwrite="improved")
                    tb = opt2.search(inputs, output, sizes)
                    return true_flops(ta), true_flops(other), true_flops(tb), ta.get_score(), other.get_score()

                ok, r2 = guarded(offer)
                if not ok:
                    viol.append(f"update_from_tree on ReusableRandomGreedyOptimizer raised {r2}")
                else:
                    fa, fo, fb, sa, so = r2
                    want_f = fo if so < sa else fa
                    if fb != want_f and so != sa:
                        viol.append(
                            f"cached tree costs {fa} (score {sa:.4f}), a tree costing {fo} (score {so:.4f}) was offered with "
                            f"update_from_tree(overwrite='improved'), the cache now serves one costing {fb}"
                        )
    else:
        def go():
            kw = {}
            # slice only where every label takes part in a pairwise contraction
            if (
                spec.get("slicing") and sizes
                and all(sum(ix in t for t in inputs) >= 2 for ix in sizes)
                and all(d >= 2 for d in sizes.values())  # so that 2 slices are reachable
            ):
                kw["slicing_opts"] = {"target_slices": 2, "max_repeats": 2}
            opt = ctg.ReusableHyperOptimizer(
                methods=["greedy"], optlib="random", max_repeats=spec["max_repeats"],
                minimize=spec["minimize"], parallel=False, seed=spec["seed"], **kw,
            )
            t1 = opt.search(inputs, output, sizes)
            (con,) = opt._cache._mem_cache.values()
            t2 = opt.search(inputs, output, sizes)
            return con, t1, t2

        ok, r = guarded(go)
        if not ok:
            viol.append(f"ReusableHyperOptimizer raised {r}")
        else:
            con, t1, t2 = r
            s2 = t2.get_score(spec["minimize"])
            if not math.isclose(con["score"], s2, rel_tol=1e-12, abs_tol=1e-12):
                viol.append(f"stored score {con['score']} != score {s2} of the tree rebuilt from the stored path")
            if t2.get_path() != tuple(con["path"]) and list(map(tuple, t2.get_path())) != list(map(tuple, con["path"])):
                viol.append("rebuilt tree has a different path than stored")
            if tuple(t2.sliced_inds) != tuple(con["sliced_inds"]) or tuple(t1.sliced_inds) != tuple(con["sliced_inds"]):
                viol.append(
                    f"sliced labels stored {tuple(con['sliced_inds'])}, searched tree has {tuple(t1.sliced_inds)}, rebuilt tree has {tuple(t2.sliced_inds)}"
                )
            # the figures of the rebuilt tree against the independent model
            removed = [(ix, None) for ix in t2.sliced_inds]
            cr2 = ref.CostRef(inputs, output, sizes, removed)
            st2 = cr2.stats([(p, l, r) for p, l, r in t2.traverse()])
            got = t2.contract_stats()
            if (got["flops"], got["write"], got["size"]) != (st2["flops"], st2["write"], st2["size"]):
                viol.append(f"rebuilt tree reports {got}, definition {st2['flops']}/{st2['write']}/{st2['size']}")
    cls = ["kind=report", f"which={which}"]
    if "Z" in sizes:
        cls.append("label_on_all_tensors")
    return Outcome(viol, n >= 2, cls)


def known_single(spec, v):
    return spec.get("kind") == "report" and len(spec["net"]["inputs"]) == 1 and "math domain error" in v


KNOWN = {"single_tensor_log_of_zero": known_single}


def run_case(spec, sub=None):
    if spec["kind"] == "sim":
        return run_sim(spec)
    return run_report(spec)
