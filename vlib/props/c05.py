"""C05 - every pathfinder returns a complete, well formed contraction."""

import warnings

from hypothesis import strategies as st

from .. import gen, ref
from ..fuel import Fuel, FuelExhausted
from ..harness import Outcome, guarded

ID = "C05"
LEVEL = "exploration"
RULE = (
    "Hypothesis draws (network, finder, parameters). Networks are biased to "
    "the corner cases of the partition builders: 1 and 2 tensors, all "
    "scalars, no shared labels, many components, one label on every tensor, "
    "repeated labels, 10-40 tensors straddling cutoff/groupsize/parts. "
    "Finders: presets greedy/eager/opportunistic/optimal/dp/dynamic-"
    "programming/optimal-outer/auto/auto-hq/random via array_contract_path, "
    "array_contract_tree, find_path, find_tree; GreedyOptimizer, "
    "OptimalOptimizer, RandomGreedyOptimizer, RandomOptimizer via __call__ "
    "and search; hyper methods greedy/random-greedy/labels/labels-agglom/"
    "kahypar/kahypar-balanced/kahypar-agglom/random called directly with "
    "parameters drawn from their registered search space + constants and "
    "through HyperOptimizer(optlib='random', on_trial_error='raise'); "
    "explicit linear/SSA/edge paths (incl. incomplete, autocomplete=True). "
    "Oracle = validity predicate: path steps touch distinct live positions "
    "and leave one tensor; tree complete, N-1 internal nodes each the "
    "disjoint union of its children, root = all leaves, same network as "
    "queried (up to the documented relabelling); the call returns within a "
    "deterministic step budget (sys.monitoring counter, not wall clock). "
    "Non-trivial = network outside 'connected simple graph' or parameters "
    "drawn from the search space. Distinct = sha1(spec)."
)
ASSUMPTIONS = [
    "igraph/quickbb/flowcutter back-ends are not installed and not listed by the property",
    "loops inside the kahypar C extension are only caught by the wall-clock watchdog (exit 2)",
]

FUEL_LIMIT = 30_000_000
# a case that exhausts FUEL_LIMIT is run once more with this (50x) budget: only
# if that is exhausted too is it reported as "did not return". Slow by design
# (an exponential dynamic programme over ~18 groups) is not stuck.
FUEL_CONFIRM = 1_000_000_000
# a "did not return" failure is not shrunk (every candidate would cost minutes)
NO_SHRINK = "did not return within the step budget"

PRESETS = [
    "greedy", "eager", "opportunistic", "optimal", "dp",
    "dynamic-programming", "optimal-outer", "auto", "auto-hq", "random",
]
EXPONENTIAL = {"optimal", "dp", "dynamic-programming", "optimal-outer"}
HYPER = [
    "greedy", "random-greedy", "labels", "labels-agglom", "kahypar",
    "kahypar-balanced", "kahypar-agglom", "random",
]


def space_strategy(method):
    from cotengra.hyperoptimizers.hyper import get_hyper_space

    space = get_hyper_space()[method]
    d = {}
    for k, p in space.items():
        t = p["type"]
        if t == "INT":
            d[k] = st.integers(p["min"], p["max"])
        elif t == "FLOAT":
            d[k] = st.floats(p["min"], p["max"], allow_nan=False).map(lambda x: round(x, 4))
        elif t == "FLOAT_EXP":
            d[k] = st.floats(p["min"], p["max"], allow_nan=False).map(lambda x: round(x, 4))
        elif t == "STRING":
            d[k] = st.sampled_from(list(p["options"]))
        elif t == "BOOL":
            d[k] = st.booleans()
        else:
            raise ValueError(t)
    return st.fixed_dictionaries(d)


@st.composite
def corner_networks(draw):
    kind = draw(st.sampled_from(["one", "two", "scalars", "edgeless", "star", "general", "general", "big", "big", "components", "components", "components"]))
    if kind == "one":
        return draw(gen.networks(min_n=1, max_n=1, volume_limit=2**60))
    if kind == "two":
        return draw(gen.networks(min_n=2, max_n=2, volume_limit=2**60))
    if kind == "scalars":
        n = draw(st.integers(1, 14))
        return {"inputs": [[] for _ in range(n)], "output": [], "sizes": {}}
    if kind == "edgeless":
        # no label shared between tensors
        n = draw(st.integers(2, 30))
        inputs, sizes, out = [], {}, []
        c = 0
        for _ in range(n):
            r = draw(st.integers(0, 2))
            t = []
            for _ in range(r):
                ix = gen.ASCII[c % 52] if c < 52 else chr(192 + c)
                c += 1
                t.append(ix)
                sizes[ix] = draw(st.integers(1, 3))
                if draw(st.integers(0, 3)) == 0:
                    out.append(ix)
            inputs.append(t)
        return {"inputs": inputs, "output": out, "sizes": sizes}
    if kind == "star":
        # one label carried by every tensor, plus a few bonds
        n = draw(st.integers(3, 24))
        net = draw(gen.networks(min_n=n, max_n=n, max_rank=3, volume_limit=2**60))
        for t in net["inputs"]:
            t.append("Z")
        net["sizes"]["Z"] = draw(st.integers(1, 3))
        if draw(st.booleans()):
            net["output"].append("Z")
        return net
    if kind == "components":
        k = draw(st.integers(2, 4))
        inputs, sizes, out = [], {}, []
        for c in range(k):
            sub = draw(gen.networks(min_n=1, max_n=8, alphabets=("ascii",), volume_limit=2**60))
            ren = {ix: gen.ASCII[(gen.ASCII.index(ix) + 13 * c) % 52] + "" for ix in sub["sizes"]}
            # make labels of different components distinct by suffix position
            ren = {ix: chr(0x100 + 60 * c + i) for i, ix in enumerate(sub["sizes"])}
            inputs += [[ren[ix] for ix in t] for t in sub["inputs"]]
            out += [ren[ix] for ix in sub["output"]]
            sizes.update({ren[ix]: d for ix, d in sub["sizes"].items()})
        if draw(st.booleans()):
            # ... held together by nothing but one label that every tensor
            # carries (a batch label, or a summed one): connected as given,
            # in pieces once that label is factored out
            for t in inputs:
                t.append("Z")
            sizes["Z"] = draw(st.integers(1, 3))
            if draw(st.booleans()):
                out.append("Z")
        return {"inputs": inputs, "output": out, "sizes": sizes}
    if kind == "big":
        return draw(gen.networks(min_n=9, max_n=40, max_rank=4, volume_limit=2**60))
    return draw(gen.networks(min_n=2, max_n=9, volume_limit=2**60))


@st.composite
def cases(draw):
    net = draw(corner_networks())
    n = len(net["inputs"])
    fam = draw(st.sampled_from(["preset", "preset", "class", "hyper", "hyper", "hyper", "explicit"]))
    spec = {"net": net, "family": fam, "seed": draw(st.integers(0, 999))}
    if fam == "preset":
        spec["name"] = draw(st.sampled_from(PRESETS))
        spec["entry"] = draw(st.sampled_from(["path", "tree", "find_path", "find_tree"]))
    elif fam == "class":
        spec["name"] = draw(st.sampled_from(["Greedy", "Optimal", "RandomGreedy", "Random", "ReusableRandomGreedy", "ReusableHyper"]))
        # (the optimizer object used directly, or handed to the interface; a
        # reusable one is asked twice: the second answer comes from its cache)
        spec["entry"] = draw(st.sampled_from(["call", "search", "interface_path", "interface_tree"]))
        spec["kw"] = {
            "Greedy": {"costmod": draw(st.sampled_from([1.0, 0.3, 3.0])), "temperature": draw(st.sampled_from([0.0, 0.5])), "simplify": draw(st.booleans())},
            "Optimal": {"minimize": draw(st.sampled_from(["flops", "size", "write", "max", "combo", "limit-16"])), "search_outer": draw(st.booleans()), "simplify": draw(st.booleans())},
            "RandomGreedy": {"max_repeats": draw(st.integers(1, 4)), "simplify": draw(st.booleans())},
            "Random": {},
            "ReusableRandomGreedy": {"max_repeats": draw(st.integers(1, 3))},
            "ReusableHyper": {"max_repeats": draw(st.integers(1, 2)), "methods": [draw(st.sampled_from(["greedy", "random-greedy", "labels", "random"]))]},
        }[spec["name"]]
    elif fam == "hyper":
        m = draw(st.sampled_from(HYPER))
        spec["name"] = m
        spec["entry"] = draw(st.sampled_from(["direct", "direct", "hyperopt"]))
        spec["params"] = draw(space_strategy(m))
    else:
        spec["entry"] = draw(st.sampled_from(["linear", "ssa", "edge", "edge_tree", "partial", "pair", "pair"]))
        # for "pair": two explicit forms in sequence through one entry point,
        # each given as a list or as a tuple (dispatch on the type is cached)
        spec["pair"] = [
            [draw(st.sampled_from(["linear", "edge"])), draw(st.sampled_from(["list", "tuple"]))]
            for _ in range(2)
        ]
        spec["pair_entry"] = draw(st.sampled_from(["path", "tree"]))
        spec["canonicalize"] = draw(st.booleans())
        spec["path"] = draw(gen.linear_paths(n)) if n > 1 else []
        labels = list(net["sizes"])
        k = draw(st.integers(0, len(labels)))
        spec["edge"] = (
            draw(st.lists(st.sampled_from(labels), min_size=k, max_size=k, unique=True))
            if labels
            else []
        )
        spec["cut"] = draw(st.integers(0, max(0, n - 1)))
    return spec


def strategy(tier, sub=None):
    return cases()


def budget(tier, sub=None):
    # (case_seconds: the wall-clock allowance of ONE case, generous because a case that
    # exhausts the first step budget is re-run with a 50x budget, which takes minutes)
    return {"examples": 40000 if tier == "quick" else 320000, "shards": 16, "case_seconds": 3000, "timeout": 7200 if tier == "quick" else 10 * 3600}


def pattern(inputs, output, sizes):
    """Network up to relabelling: labels -> order of first appearance."""
    m = {}
    for t in inputs:
        for ix in t:
            m.setdefault(ix, len(m))
    for ix in output:
        m.setdefault(ix, len(m))
    return (
        tuple(tuple(m[ix] for ix in t) for t in inputs),
        tuple(m[ix] for ix in output),
        tuple(sorted((m[ix], int(d)) for ix, d in sizes.items() if ix in m)),
    )


def check_partial(path, n, left):
    live = n
    for k, step in enumerate(path):
        step = tuple(step)
        if len(set(step)) != len(step) or not step:
            return f"step {k} repeats a position or is empty: {step}"
        if any((not isinstance(i, int)) or i < 0 or i >= live for i in step):
            return f"step {k}={step} out of range with {live} live tensors"
        live -= len(step) - 1
    if live != left:
        return f"path leaves {live} tensors, the edge order leaves {left}"
    return None


def known_single_tensor_log(spec, v):
    return len(spec["net"]["inputs"]) == 1 and "math domain error" in v


KNOWN = {"single_tensor_log_of_zero": known_single_tensor_log}


def check_tree(tree, inputs, output, sizes, viol, what):
    n = len(inputs)
    try:
        complete = tree.is_complete()
    except Exception as e:  # over-complete
        viol.append(f"{what}: is_complete raised {type(e).__name__}: {e}")
        return
    if not complete:
        viol.append(f"{what}: tree is not complete")
        return
    if tree.N != n:
        viol.append(f"{what}: tree.N {tree.N} != {n} inputs")
        return
    if pattern(tree.inputs, tree.output, tree.size_dict) != pattern(inputs, output, sizes):
        viol.append(f"{what}: tree carries a different network than was queried")
    if n == 1:
        return
    if len(tree.children) != n - 1:
        viol.append(f"{what}: {len(tree.children)} internal nodes for {n} tensors")
    root = frozenset(range(n))
    if root not in tree.children:
        viol.append(f"{what}: root is not an internal node")
    for p, (l, r) in tree.children.items():
        if (l | r) != p or (l & r) or not l or not r:
            viol.append(f"{what}: node {sorted(p)} is not the disjoint union of its children")
            break
        for c in (l, r):
            if len(c) > 1 and c not in tree.children:
                viol.append(f"{what}: child {sorted(c)} has no children")
                break


def run_case(spec, sub=None):
    import cotengra as ctg
    from cotengra.hyperoptimizers import hyper as H

    net = spec["net"]
    inputs = [tuple(t) for t in net["inputs"]]
    output = tuple(net["output"])
    sizes = dict(net["sizes"])
    n = len(inputs)
    fam = spec["family"]
    viol = []
    cls = [f"family={fam}", f"entry={spec['entry']}"]
    skipped = False

    def finder():
        """returns ('path', p) or ('tree', t)"""
        nonlocal skipped
        if fam == "preset":
            name = spec["name"]
            if name in EXPONENTIAL and n > 9:
                skipped = True
                return None
            if name in ("auto", "auto-hq") and n > 9:
                # below their hardness cutoff these presets run the exponential
                # dynamic programme: slow by design, not a termination question
                hardness = n**2 * (sum(map(len, inputs)) / n) ** 0.5
                if hardness < (250 if name == "auto" else 650):
                    skipped = True
                    return None
            e = spec["entry"]
            if e == "path":
                return "path", ctg.array_contract_path(inputs, output, sizes, optimize=name, cache=False)
            if e == "tree":
                return "tree", ctg.array_contract_tree(inputs, output, sizes, optimize=name)
            if e == "find_path":
                return "path", ctg.interface.find_path(inputs, output, sizes, optimize=name)
            return "tree", ctg.interface.find_tree(inputs, output, sizes, optimize=name)
        if fam == "class":
            name, kw = spec["name"], dict(spec["kw"])
            if name == "Optimal" and n > 9:
                skipped = True
                return None
            if name == "Greedy":
                opt = ctg.pathfinders.path_basic.GreedyOptimizer(**kw)
            elif name == "Optimal":
                opt = ctg.pathfinders.path_basic.OptimalOptimizer(**kw)
            elif name == "RandomGreedy":
                opt = ctg.pathfinders.path_basic.RandomGreedyOptimizer(seed=spec["seed"], parallel=False, **kw)
            elif name == "ReusableRandomGreedy":
                if n == 1:
                    skipped = True  # (open finding D17: log of zero flops)
                    return None
                opt = ctg.pathfinders.path_basic.ReusableRandomGreedyOptimizer(seed=spec["seed"], parallel=False, **kw)
            elif name == "ReusableHyper":
                if n == 1:
                    skipped = True
                    return None
                opt = ctg.ReusableHyperOptimizer(optlib="random", parallel=False, on_trial_error="raise", seed=spec["seed"], **kw)
            else:
                opt = ctg.pathfinders.path_random.RandomOptimizer(seed=spec["seed"])

            def ask():
                if spec["entry"] == "call":
                    return "path", opt(inputs, output, sizes)
                if spec["entry"] == "interface_path":
                    return "path", ctg.array_contract_path(inputs, output, sizes, optimize=opt, cache=False)
                if spec["entry"] == "interface_tree":
                    return "tree", ctg.array_contract_tree(inputs, output, sizes, optimize=opt)
                return "tree", opt.search(inputs, output, sizes)

            if name.startswith("Reusable"):
                first = ask()
                second = ask()  # served from the optimizer's cache
                return "two", (first, second)
            return ask()
        if fam == "hyper":
            m = spec["name"]
            params = dict(spec["params"])
            if spec["entry"] == "direct" or m == "kahypar-agglom":
                fn = H._PATH_FNS[m]
                return "tree", fn(inputs, output, sizes, **params, **H.get_hyper_constants()[m])
            opt = ctg.HyperOptimizer(
                methods=[m], optlib="random", max_repeats=2, parallel=False,
                on_trial_error="raise", seed=spec["seed"],
            )
            return "tree", opt.search(inputs, output, sizes)
        # explicit
        e = spec["entry"]
        path = [tuple(p) for p in spec["path"]]
        if e == "linear":
            return "both", (
                ctg.array_contract_path(inputs, output, sizes, optimize=path, cache=False),
                ctg.array_contract_tree(inputs, output, sizes, optimize=path),
            )
        if e == "ssa":
            ssa = ref.linear_to_ssa_ref(path, n)
            return "tree", ctg.ContractionTree.from_path(inputs, output, sizes, ssa_path=ssa)
        if e == "partial":
            with warnings.catch_warnings():
                warnings.simplefilter("ignore")
                # (the remaining tensors are contracted in ONE step resolved by
                # ``optimize``; the default 'auto-hq' runs an exponential dynamic
                # programme there, slow by design, so beyond 9 of them the
                # completion is asked of 'greedy')
                left = n - min(spec["cut"], len(path))
                kw_ = {"optimize": "greedy"} if left > 9 else {}
                return "tree", ctg.ContractionTree.from_path(
                    inputs, output, sizes, path=path[: spec["cut"]], autocomplete=True, **kw_
                )
        if e == "pair":
            if n < 3 or not spec["edge"]:
                skipped = True
                return None
            ctg.interface._find_path_handlers.clear()
            ctg.interface._find_tree_handlers.clear()
            outs = []
            for form, typ in spec["pair"]:
                if form == "linear":
                    opt = [tuple(p) for p in path]
                else:
                    opt = list(spec["edge"])
                opt = tuple(opt) if typ == "tuple" else list(opt)
                with warnings.catch_warnings():
                    warnings.simplefilter("ignore")
                    if spec["pair_entry"] == "path":
                        r = ctg.array_contract_path(inputs, output, sizes, optimize=opt, cache=False, canonicalize=spec["canonicalize"])
                        outs.append(("path_edge" if form == "edge" else "path", r))
                    else:
                        r = ctg.array_contract_tree(inputs, output, sizes, optimize=opt, canonicalize=spec["canonicalize"])
                        outs.append(("tree", r))
            return "many", outs
        if not spec["edge"]:
            skipped = True
            return None
        if e == "edge":
            if n == 1:
                skipped = True
                return None
            return "path", ctg.array_contract_path(inputs, output, sizes, optimize=list(spec["edge"]), cache=False)
        with warnings.catch_warnings():
            warnings.simplefilter("ignore")
            return "tree", ctg.ContractionTree.from_path(
                inputs, output, sizes, edge_path=list(spec["edge"]), autocomplete=True
            )

    fuel = Fuel(FUEL_LIMIT)
    slow = False
    try:
        with fuel:
            with warnings.catch_warnings():
                warnings.simplefilter("ignore")
                ok, res = guarded(finder)
    except FuelExhausted:
        slow = True
        fuel = Fuel(FUEL_CONFIRM)
        try:
            with fuel:
                with warnings.catch_warnings():
                    warnings.simplefilter("ignore")
                    ok, res = guarded(finder)
        except FuelExhausted as e:
            ok, res = False, None
            viol.append(
                f"{fam}:{spec.get('name', spec['entry'])} did not return within the step budget ({e}) on {n} tensors"
            )
    what = f"{fam}:{spec.get('name', '')}:{spec['entry']}"
    if not viol:
        if not ok:
            viol.append(f"{what} raised {res}")
        elif res is not None:
            kind, val = res
            if kind == "both":
                items = [("path", val[0]), ("tree", val[1])]
            elif kind in ("many", "two"):
                items = list(val)
            else:
                items = [(kind, val)]
            for k, v in items:
                if k in ("path", "path_edge"):
                    try:
                        v = [tuple(s) for s in v]
                    except TypeError:
                        viol.append(f"{what}: path is not a sequence of steps: {v!r}")
                        continue
                    if k == "path_edge" or (fam == "explicit" and spec["entry"] == "edge"):
                        # an edge path only contracts the labels it names: the
                        # steps must be valid, and leave exactly as many
                        # tensors as the reference simulation of that order
                        from .c10 import edge_ref

                        left = n - sum(len(s) - 1 for s in edge_ref(spec["edge"], inputs))
                        msg = check_partial(v, n, left)
                    else:
                        msg = ref.check_path_valid(v, n)
                    if msg:
                        viol.append(f"{what}: invalid path {v}: {msg}")
                else:
                    check_tree(v, inputs, output, sizes, viol, what)

    nc = gen.net_classes(net) if n > 1 else {"single_tensor"}
    if n == 1:
        cls.append("n=1")
    elif n == 2:
        cls.append("n=2")
    elif n >= 10:
        cls.append("n>=10")
    if not sizes:
        cls.append("no_labels")
    cls += sorted(nc & {"disconnected", "hyper", "repeat", "scalar", "on_all", "size1"})
    if "name" in spec:
        cls.append(f"finder={spec['name']}")
    if skipped:
        cls.append("skipped")
    special = bool(nc & {"disconnected", "hyper", "repeat", "scalar", "on_all", "single_tensor"}) or n <= 2
    nontrivial = (not skipped) and (special or fam == "hyper")
    if slow and not viol:
        cls = list(cls) + ["slow_not_stuck"]
    return Outcome(viol, nontrivial, cls, {"max_fuel": fuel.used, "fuel_total": fuel.used})
