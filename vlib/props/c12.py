"""C12 - the einsum front end accepts what numpy.einsum accepts and means the same."""

import numpy as np
from hypothesis import strategies as st

from .. import ref
from ..harness import Outcome, guarded

ID = "C12"
LEVEL = "exploration"
RULE = (
    "Grammar-based generation of call forms: (A) equation strings with 1-4 "
    "operands, explicit or implicit output, an ellipsis in any subset of "
    "operands at any position covering 0-2 leading dims with different ranks "
    "per operand, '...' present or not in an explicit output; (B) interleaved "
    "(array, sublist, ..., [out sublist]) with integer labels in arbitrary "
    "order and Ellipsis; (C) array_contract with arbitrary hashable labels "
    "(ints, multi-char strings, tuples, mixed), explicit or documented "
    "implicit output; (D) ncon with negative labels as outputs. Oracle: "
    "numpy.einsum on the very same arguments is the specification for A/B "
    "(cases numpy itself rejects are counted and skipped); the independent "
    "dense evaluator for C/D (implicit output = labels occurring once in "
    "order of first appearance; ncon outputs ordered -1,-2,...). Exact "
    "comparison of integer-valued arrays incl. shape. Non-trivial = ellipsis, "
    "implicit output or interleaved form present (A/B), non-string labels "
    "(C), >=3 tensors (D). Distinct = sha1(spec)."
)
ASSUMPTIONS = [
    "no blanks inside equation strings; one size per label (no stretching of size-1 ellipsis dims)",
    "numpy.einsum is the specification for forms A/B",
]

LETTERS = "abcdeXY"


@st.composite
def form_a(draw):
    nops = draw(st.integers(1, 4))
    E = draw(st.sampled_from([0, 0, 1, 2]))  # number of ellipsis dims
    esizes = [draw(st.integers(1, 3)) for _ in range(E)]
    sizes = {ix: draw(st.integers(1, 3)) for ix in LETTERS}
    terms, shapes = [], []
    any_ell = False
    for _ in range(nops):
        labs = draw(st.lists(st.sampled_from(LETTERS), min_size=0, max_size=3))
        has = draw(st.booleans()) if (E > 0 or draw(st.integers(0, 3)) == 0) else False
        if has:
            any_ell = True
            ne = draw(st.integers(0, E))
            pos = draw(st.integers(0, len(labs)))
            term = "".join(labs[:pos]) + "..." + "".join(labs[pos:])
            # (a leading dimension may be 1 on this operand: broadcast)
            mine = [1 if draw(st.integers(0, 3)) == 0 else d for d in esizes[E - ne :]]
            shape = (
                [sizes[ix] for ix in labs[:pos]]
                + mine
                + [sizes[ix] for ix in labs[pos:]]
            )
        else:
            term = "".join(labs)
            shape = [sizes[ix] for ix in labs]
        terms.append(term)
        shapes.append(shape)
    if nops >= 2 and draw(st.integers(0, 5)) == 0:
        # numpy also broadcasts a NAMED index that has size 1 on one operand
        # and a larger size on another one: shrink one such axis to 1
        cand = [
            (i, j)
            for i, t in enumerate(terms)
            for j, ch in enumerate(t.replace("...", ""))
            if "..." not in t and sizes[ch] > 1 and t.count(ch) == 1 and sum(ch in t2 for t2 in terms) >= 2
        ]
        if cand:
            i, j = draw(st.sampled_from(cand))
            shapes[i] = list(shapes[i])
            shapes[i][j] = 1
    used = list(dict.fromkeys(ch for t in terms for ch in t if ch != "."))
    explicit = draw(st.booleans())
    eq = ",".join(terms)
    if explicit:
        k = draw(st.integers(0, len(used)))
        out = draw(st.lists(st.sampled_from(used), min_size=k, max_size=k, unique=True)) if used else []
        out_s = "".join(out)
        if (any_ell and draw(st.integers(0, 9)) != 0) or (not any_ell and draw(st.integers(0, 7)) == 0):
            # (with no ellipsis on any operand, '...' in the output stands for
            # zero dimensions: numpy accepts that)
            pos = draw(st.integers(0, len(out)))
            out_s = "".join(out[:pos]) + "..." + "".join(out[pos:])
        eq += "->" + out_s
    if draw(st.integers(0, 3)) == 0:
        # whitespace around terms, commas and the arrow, as numpy tolerates
        # (the common 'ij, jk -> ik' style)
        pad = lambda: " " * draw(st.integers(0, 2))  # noqa: E731
        lhs, *rhs = eq.split("->")
        eq = ",".join(pad() + t + pad() for t in lhs.split(","))
        if rhs:
            eq += pad() + "->" + pad() + rhs[0] + pad()
    return {
        "form": "A",
        "eq": eq,
        "shapes": shapes,
        "aseed": draw(st.integers(0, 99)),
        "optimize": draw(st.sampled_from(["auto", "greedy"])),
        "via": draw(st.sampled_from(["einsum", "einsum", "einsum_expression", "einsum_tree"])),
        # operands of different dtype (numpy brings them to the common type
        # first): None = all float64
        "dtypes": (
            [draw(st.sampled_from(["f8", "f8", "bool", "u1", "i1", "f4", "c16", "i8"])) for _ in range(nops)]
            if draw(st.integers(0, 5)) == 0 else None
        ),
    }


@st.composite
def form_b(draw):
    nops = draw(st.integers(1, 3))
    # numpy maps the integers 0..51 onto 'a..zA..Z'
    ints = draw(st.lists(st.one_of(st.integers(0, 12), st.integers(0, 51)), min_size=1, max_size=5, unique=True))
    sizes = {i: draw(st.integers(1, 3)) for i in ints}
    E = draw(st.sampled_from([0, 0, 0, 1, 2]))
    esizes = [draw(st.integers(1, 3)) for _ in range(E)]
    subs, shapes = [], []
    any_ell = False
    for _ in range(nops):
        labs = draw(st.lists(st.sampled_from(ints), min_size=0, max_size=3))
        if E > 0 and draw(st.booleans()):
            any_ell = True
            ne = draw(st.integers(0, E))
            pos = draw(st.integers(0, len(labs)))
            sub = labs[:pos] + ["..."] + labs[pos:]
            shape = [sizes[i] for i in labs[:pos]] + esizes[E - ne :] + [sizes[i] for i in labs[pos:]]
        else:
            sub = list(labs)
            shape = [sizes[i] for i in labs]
        subs.append(sub)
        shapes.append(shape)
    used = list(dict.fromkeys(i for s in subs for i in s if i != "..."))
    out = None
    if draw(st.booleans()):
        k = draw(st.integers(0, len(used)))
        out = draw(st.lists(st.sampled_from(used), min_size=k, max_size=k, unique=True)) if used else []
        if (any_ell and draw(st.integers(0, 9)) != 0) or (not any_ell and draw(st.integers(0, 7)) == 0):
            # (an Ellipsis in the output sublist only stands for zero dimensions)
            pos = draw(st.integers(0, len(out)))
            out = out[:pos] + ["..."] + out[pos:]
    return {
        "form": "B",
        "subs": subs,
        "out": out,
        "shapes": shapes,
        "aseed": draw(st.integers(0, 99)),
        "optimize": draw(st.sampled_from(["auto", "greedy"])),
    }


def _label(kind, i):
    if kind == "int":
        return i * 7 - 3
    if kind == "str":
        return f"idx{i}"
    if kind == "tuple":
        return ["t", i]  # JSON form of a tuple label
    # mixed
    return [i * 7 - 3, f"idx{i}", ["t", i]][i % 3]


def _tolabel(x):
    return tuple(x) if isinstance(x, list) else x


@st.composite
def form_c(draw):
    kind = draw(st.sampled_from(["int", "str", "tuple", "mixed"]))
    wide = draw(st.integers(0, 5)) == 0
    if wide:
        # more distinct labels than the 26 lower-case letters (a chain, with a
        # few free legs on either side of label number 26): almost all of
        # size 1 so that the dense reference stays small
        nlab = draw(st.integers(27, 40))
        labels = [_label(kind, i) for i in range(nlab)]
        big = set(draw(st.lists(st.integers(0, nlab - 1), min_size=0, max_size=6, unique=True)))
        sizes = [draw(st.integers(2, 3)) if i in big else 1 for i in range(nlab)]
        nops = draw(st.integers(3, 8))
        inputs = [[] for _ in range(nops)]
        free = set(draw(st.lists(st.integers(0, nlab - 1), min_size=2, max_size=4, unique=True)))
        for i in range(nlab):
            a = draw(st.integers(0, nops - 1))
            inputs[a].append(i)
            if i not in free:
                b = draw(st.integers(0, nops - 1))
                if b != a:
                    inputs[b].append(i)
    else:
        nlab = draw(st.integers(1, 6))
        labels = [_label(kind, i) for i in range(nlab)]
        perm = draw(st.permutations(list(range(nlab))))
        labels = [labels[i] for i in perm]
        sizes = [draw(st.integers(1, 3)) for _ in range(nlab)]
        nops = draw(st.integers(1, 5))
        inputs = [
            draw(st.lists(st.integers(0, nlab - 1), min_size=0, max_size=3))
            for _ in range(nops)
        ]
    used = list(dict.fromkeys(i for t in inputs for i in t))
    out = None
    if draw(st.booleans()):
        k = draw(st.integers(0, len(used)))
        out = draw(st.lists(st.sampled_from(used), min_size=k, max_size=k, unique=True)) if used else []
    return {
        "form": "C",
        "labels": labels,
        "sizes": sizes,
        "inputs": inputs,
        "out": out,
        "aseed": draw(st.integers(0, 99)),
        "optimize": draw(st.sampled_from(["auto", "greedy"])),
    }


@st.composite
def form_d(draw):
    nops = draw(st.integers(1, 5))
    npos = draw(st.integers(0, 5))
    nneg = draw(st.integers(0, 3))
    inds = [[] for _ in range(nops)]
    sizes = {}
    for p in range(1, npos + 1):
        sizes[p] = draw(st.integers(1, 3))
        cnt = draw(st.sampled_from([2, 2, 2, 1, 3]))
        for _ in range(cnt):
            inds[draw(st.integers(0, nops - 1))].append(p)
    for q in range(1, nneg + 1):
        sizes[-q] = draw(st.integers(1, 3))
        inds[draw(st.integers(0, nops - 1))].append(-q)
    inds = [list(draw(st.permutations(t))) if len(t) > 1 else t for t in inds]
    inds = [t[:4] for t in inds]
    return {
        "form": "D",
        "inds": inds,
        "sizes": {str(k): v for k, v in sizes.items()},
        "aseed": draw(st.integers(0, 99)),
        "label_type": draw(st.sampled_from(["int", "int", "tuple", "numpy"])),
    }


def strategy(tier, sub=None):
    return st.one_of(form_a(), form_a(), form_b(), form_c(), form_d())


def budget(tier, sub=None):
    return {"examples": 24000 if tier == "quick" else 400000, "shards": 16}


def _arrays(shapes, aseed):
    out = []
    for i, shp in enumerate(shapes):
        rng = np.random.default_rng([aseed, i, len(shp)])
        out.append(rng.integers(-2, 3, size=tuple(shp)).astype(np.float64))
    return out


def _cmp(got, exp, what):
    got = np.asarray(got)
    exp = np.asarray(exp)
    if got.shape != exp.shape:
        return [f"{what}: shape {got.shape} != reference {exp.shape}"]
    if not np.array_equal(got, exp):
        return [f"{what}: values differ from reference"]
    return []


def known_mixed_dtypes(spec, v):
    """Open finding: operands of different dtype are not brought to the common
    type first, so a pairwise / single-operand step computed in the narrow
    type (bool: logical or; uint8, int8: wrap around) differs from numpy."""
    dts = spec.get("dtypes")
    return bool(dts) and len(set(dts)) > 1 and "values differ from reference" in v


KNOWN = {"mixed_dtype_operands": known_mixed_dtypes}


def run_case(spec, sub=None):
    import cotengra as ctg

    form = spec["form"]
    viol, cls = [], [f"form{form}"]
    nontrivial = False
    kw = {"cache_expression": False}
    if form == "A":
        arrays = _arrays(spec["shapes"], spec["aseed"])
        if spec.get("dtypes"):
            cast = []
            for a_, dt in zip(arrays, spec["dtypes"]):
                if dt == "bool":
                    cast.append(np.abs(a_) % 2 == 1)
                elif dt == "u1":
                    cast.append(np.abs(a_).astype(np.uint8) + 120)  # sums of a few of them pass 255
                elif dt == "i1":
                    cast.append((a_ * 50).astype(np.int8))
                else:
                    cast.append(a_.astype(dt))
            arrays = cast
            if len(set(spec["dtypes"])) > 1:
                cls.append("mixed_dtypes")
        eq = spec["eq"]
        try:
            exp = np.einsum(eq, *arrays)
        except Exception:
            return Outcome([], False, cls + ["numpy_rejects"])
        via = spec.get("via", "einsum")
        shp = [tuple(s) for s in spec["shapes"]]
        if via == "einsum_expression":
            ok, got = guarded(
                lambda: ctg.einsum_expression(eq, *shp, optimize=spec["optimize"], cache=False)(*arrays)
            )
        elif via == "einsum_tree" and len(arrays) >= 2:
            # the tree (built from the parsed equation) must contract to numpy's value
            def via_tree():
                t = ctg.einsum_tree(eq, *shp, optimize=spec["optimize"])
                # ... and know the true extent of every label (an operand that
                # broadcasts a label has extent 1 there, the label has not)
                for term_, shape_ in zip(t.inputs, shp):
                    for ix_, d_ in zip(term_, shape_):
                        if t.size_dict[ix_] < d_:
                            raise AssertionError(
                                f"einsum_tree('{eq}', shapes {shp}): the tree takes label {ix_!r} to have size "
                                f"{t.size_dict[ix_]}, an operand has extent {d_} there (costs are reported for the wrong sizes)"
                            )
                return t.contract(arrays)

            ok, got = guarded(via_tree)
        else:
            via = "einsum"
            ok, got = guarded(ctg.einsum, eq, *arrays, optimize=spec["optimize"], **kw)
        cls.append(f"via={via}")
        what = f"{via}('{eq}', shapes {shp})"
        if not ok:
            viol.append(f"{what} raised {got}; numpy accepts it")
        else:
            viol += _cmp(got, exp, what)
        if "..." in eq:
            cls.append("ellipsis")
        if "->" not in eq:
            cls.append("implicit_output")
        if len(arrays) == 1:
            cls.append("single_operand")
        if " " in eq:
            cls.append("whitespace")
        nontrivial = "..." in eq or "->" not in eq or " " in eq
    elif form == "B":
        arrays = _arrays(spec["shapes"], spec["aseed"])
        args = []
        for a, s in zip(arrays, spec["subs"]):
            args.append(a)
            args.append([Ellipsis if i == "..." else i for i in s])
        if spec["out"] is not None:
            args.append([Ellipsis if i == "..." else i for i in spec["out"]])
        try:
            exp = np.einsum(*args)
        except Exception:
            return Outcome([], False, cls + ["numpy_rejects"])
        ok, got = guarded(ctg.einsum, *args, optimize=spec["optimize"], **kw)
        what = f"einsum(interleaved subs={spec['subs']} out={spec['out']} shapes={[tuple(s) for s in spec['shapes']]})"
        if not ok:
            viol.append(f"{what} raised {got}; numpy accepts it")
        else:
            viol += _cmp(got, exp, what)
        cls.append("interleaved")
        if spec["out"] is None:
            cls.append("implicit_output")
        if any("..." in s for s in spec["subs"]):
            cls.append("ellipsis")
        nontrivial = True
    elif form == "C":
        labels = [_tolabel(x) for x in spec["labels"]]
        inputs = [tuple(labels[i] for i in t) for t in spec["inputs"]]
        sizes = {labels[i]: d for i, d in enumerate(spec["sizes"])}
        arrays = ref.make_arrays(inputs, sizes, spec["aseed"], "f")
        if spec["out"] is None:
            seen, once = {}, []
            for t in inputs:
                for ix in t:
                    seen[ix] = seen.get(ix, 0) + 1
            output = tuple(ix for ix in seen if seen[ix] == 1)
            out_arg = None
            cls.append("implicit_output")
        else:
            output = tuple(labels[i] for i in spec["out"])
            out_arg = output
        exp = ref.dense_ref(inputs, output, sizes, arrays)
        ok, got = guarded(
            ctg.array_contract, arrays, inputs, out_arg, optimize=spec["optimize"], **kw
        )
        what = f"array_contract(inputs={inputs}, output={out_arg})"
        if not ok:
            viol.append(f"{what} raised {got}")
        else:
            viol += _cmp(got, exp, what)
        kinds = {type(l).__name__ for l in labels}
        cls.append("labels=" + "+".join(sorted(kinds)))
        nontrivial = kinds != {"str"} or spec["out"] is None
    else:
        inds = [tuple(t) for t in spec["inds"]]
        sizes = {int(k): v for k, v in spec["sizes"].items()}
        arrays = ref.make_arrays(inds, sizes, spec["aseed"], "f")
        output = tuple(sorted({ix for t in inds for ix in t if ix < 0}, reverse=True))
        exp = ref.dense_ref(inds, output, sizes, arrays)
        lt = spec.get("label_type", "int")
        if lt == "numpy":
            # label lists as integer arrays (numpy.int64 labels)
            arg = [np.array(t, dtype=np.int64) for t in inds]
        elif lt == "tuple":
            arg = [tuple(t) for t in inds]
        else:
            arg = [list(t) for t in inds]
        cls.append(f"ncon_labels={lt}")
        ok, got = guarded(ctg.ncon, arrays, arg, **kw)
        what = f"ncon({[list(t) for t in inds]}, labels as {lt})"
        if not ok:
            viol.append(f"{what} raised {got}")
        else:
            viol += _cmp(got, exp, what)
        nontrivial = len(inds) >= 3
    return Outcome(viol, nontrivial, cls)
