"""C10 - path formats convert into each other and into trees without loss."""

import warnings

from hypothesis import strategies as st

from .. import gen, ref
from ..harness import Outcome, guarded

ID = "C10"
LEVEL = "exploration"
RULE = (
    "Hypothesis draws (network, random pairwise path, traversal order in "
    "{None,dfs,surface_order,len,constant,tie-heavy table}, a general path "
    "with 1..3-tensor steps possibly incomplete (explicit N), and a "
    "permutation of a subset of the labels as edge path). Oracles: internal "
    "node set of from_path(get_path(order)) and from_path(ssa_path="
    "get_ssa_path(order)) equals the node set computed from the drawn path; "
    "emitted paths are valid and list children before parents; "
    "linear_to_ssa/ssa_to_linear agree with a reference converter and are "
    "inverse to each other (modulo order inside a step); edge_path_to_ssa/"
    "_to_linear agree step by step with a reference simulation (contract "
    "exactly the live tensors carrying the label, skip if fewer than two) "
    "and from_path(edge_path=...) contains every such group as a node. "
    "Non-trivial = >=4 tensors and (callable/surface order, a multi/single "
    "tensor step, or an edge path with a hyper label). Distinct = sha1(spec)."
)
ASSUMPTIONS = ["edge paths name each label at most once and only labels that exist"]

ORDERS = [None, "dfs", "surface_order", "len", "const", "table"]


@st.composite
def general_paths(draw, n):
    """Linear path whose steps take 1..3 live positions; may stop early."""
    path = []
    live = n
    stop_early = draw(st.integers(0, 3)) == 0
    while live > 1:
        if stop_early and path and draw(st.integers(0, 2)) == 0:
            break
        k = draw(st.integers(1, min(3, live)))
        step = draw(
            st.lists(st.integers(0, live - 1), min_size=k, max_size=k, unique=True)
        )
        path.append(step)
        live -= k - 1
        if k == 1 and len(path) > 3 * n:
            break
    return path


@st.composite
def cases(draw, max_n):
    net = draw(gen.networks(min_n=2, max_n=max_n, volume_limit=2**40))
    n = len(net["inputs"])
    labels = list(dict.fromkeys(ix for t in net["inputs"] for ix in t))
    if labels:
        k = draw(st.integers(0, len(labels)))
        edge = draw(
            st.lists(st.sampled_from(labels), min_size=k, max_size=k, unique=True)
        )
    else:
        edge = []
    return {
        "net": net,
        "path": draw(gen.linear_paths(n)),
        "gpath": draw(general_paths(n)),
        "edge": edge,
        "order": draw(st.sampled_from(ORDERS)),
        "table": draw(st.lists(st.integers(0, 2), min_size=1, max_size=5)),
    }


def strategy(tier, sub=None):
    return st.one_of(cases(6), cases(14))


def budget(tier, sub=None):
    return {"examples": 20000 if tier == "quick" else 500000, "shards": 16}


def norm(path):
    return [tuple(sorted(s)) for s in path]


def ssa_valid(ssa, n, pairs=True):
    defined = set(range(n))
    used = set()
    nxt = n
    for step in ssa:
        step = tuple(step)
        if pairs and len(step) != 2:
            return f"step {step} is not a pair"
        for i in step:
            if i not in defined:
                return f"id {i} used before it is defined"
            if i in used:
                return f"id {i} used twice"
            used.add(i)
        if len(set(step)) != len(step):
            return f"step {step} repeats an id"
        defined.add(nxt)
        nxt += 1
    return None


def edge_ref(edge_path, inputs):
    live = {i: set(t) for i, t in enumerate(inputs)}
    nxt = len(inputs)
    out = []
    for ix in edge_path:
        ids = sorted(i for i, t in live.items() if ix in t)
        for t in live.values():
            t.discard(ix)
        if len(ids) < 2:
            continue
        new = set()
        for i in ids:
            new |= live.pop(i)
        live[nxt] = new
        out.append(tuple(ids))
        nxt += 1
    return out


def run_case(spec, sub=None):
    import cotengra as ctg
    from cotengra.pathfinders import path_basic as pb

    net = spec["net"]
    inputs = [tuple(t) for t in net["inputs"]]
    output = tuple(net["output"])
    sizes = dict(net["sizes"])
    n = len(inputs)
    viol = []

    my_ssa = ref.linear_to_ssa_ref(spec["path"], n)
    my_nodes = {p for p, _, _ in ref.ssa_nodes(my_ssa, n)}

    ok, tree = guarded(
        ctg.ContractionTree.from_path, inputs, output, sizes,
        path=[tuple(p) for p in spec["path"]],
    )
    if not ok:
        return Outcome([f"from_path raised {tree}"], False, ["error"])
    if set(tree.children) != my_nodes:
        viol.append("from_path(path): internal nodes differ from the path's own")

    o = spec["order"]
    table = list(spec["table"])
    if o == "len":
        order = len
    elif o == "const":
        order = lambda node: 0  # noqa
    elif o == "table":
        order = lambda node: table[(min(node) + len(node)) % len(table)]  # noqa
    else:
        order = o

    def roundtrip():
        lin = tree.get_path(order)
        ssa = tree.get_ssa_path(order)
        return lin, ssa

    ok, res = guarded(roundtrip)
    if not ok:
        viol.append(f"get_path/get_ssa_path({o}) raised {res}")
    else:
        lin, ssa = res
        msg = ref.check_path_valid(lin, n)
        if msg or any(len(s) != 2 for s in lin) or len(lin) != n - 1:
            viol.append(f"get_path({o}) invalid: {msg or 'wrong step count/arity'}")
        msg = ssa_valid(ssa, n)
        if msg or len(ssa) != n - 1:
            viol.append(f"get_ssa_path({o}) invalid: {msg or 'wrong step count'}")
        if not viol:
            # children before parents + same tree
            nodes_lin = {p for p, _, _ in ref.ssa_nodes(ref.linear_to_ssa_ref(lin, n), n)}
            nodes_ssa = {p for p, _, _ in ref.ssa_nodes(ssa, n)}
            if nodes_lin != my_nodes:
                viol.append(f"get_path({o}) describes a different tree")
            if nodes_ssa != my_nodes:
                viol.append(f"get_ssa_path({o}) describes a different tree")
            ok, t2 = guarded(ctg.ContractionTree.from_path, inputs, output, sizes, path=lin)
            if not ok or set(t2.children) != my_nodes:
                viol.append(f"from_path(get_path({o})) is a different tree ({t2 if not ok else ''})")
            ok, t3 = guarded(ctg.ContractionTree.from_path, inputs, output, sizes, ssa_path=ssa)
            if not ok or set(t3.children) != my_nodes:
                viol.append(f"from_path(ssa_path=get_ssa_path({o})) is a different tree ({t3 if not ok else ''})")
            # converters on the emitted paths
            ok, s2 = guarded(pb.linear_to_ssa, lin)
            if not ok or norm(s2) != norm(ssa):
                viol.append(f"linear_to_ssa(get_path) != get_ssa_path ({s2 if not ok else ''})")
            ok, l2 = guarded(pb.ssa_to_linear, ssa)
            if not ok or norm(l2) != norm(lin):
                viol.append(f"ssa_to_linear(get_ssa_path) != get_path ({l2 if not ok else ''})")

    # the compressed tree class: its default traversal is documented to be the
    # path it was built from
    if not viol and n >= 2:
        ok, tc = guarded(
            ctg.ContractionTreeCompressed.from_path, inputs, output, sizes, ssa_path=[tuple(p) for p in my_ssa]
        )
        if not ok:
            viol.append(f"ContractionTreeCompressed.from_path raised {tc}")
        elif set(tc.children) != my_nodes:
            viol.append("ContractionTreeCompressed.from_path: internal nodes differ from the path's own")
        else:
            ok, sp = guarded(tc.get_ssa_path)
            if not ok:
                viol.append(f"ContractionTreeCompressed.get_ssa_path raised {sp}")
            elif norm(sp) != norm(my_ssa):
                viol.append(
                    f"ContractionTreeCompressed built from ssa path {norm(my_ssa)} replays as {norm(sp)} by default"
                )
            ok, cp_ = guarded(lambda: tc.copy().get_ssa_path())
            if not ok:
                viol.append(f"ContractionTreeCompressed.copy().get_ssa_path raised {cp_}")
            elif norm(cp_) != norm(my_ssa):
                viol.append(
                    f"a copy of the compressed tree built from {norm(my_ssa)} replays as {norm(cp_)}"
                )
            ok, lp = guarded(tc.get_path)
            if ok:
                msg = ref.check_path_valid([tuple(x) for x in lp], n)
                if msg:
                    viol.append(f"ContractionTreeCompressed.get_path invalid: {msg}")
                elif {p_ for p_, _, _ in ref.ssa_nodes(ref.linear_to_ssa_ref(lp, n), n)} != my_nodes:
                    viol.append("ContractionTreeCompressed.get_path describes a different tree")
            else:
                viol.append(f"ContractionTreeCompressed.get_path raised {lp}")

    # ... and from a PREFIX of the linear path (the class, like its parent,
    # accepts incomplete paths and completes them): the steps given must be
    # nodes of the resulting complete tree, as for the same prefix in ssa form
    if not viol and n >= 3:
        import warnings as _w

        # (how many steps are kept: derived from the spec, 1 .. len - 1)
        k_ = 1 + sum(map(sum, spec["path"])) % (len(spec["path"]) - 1)
        prefix = [tuple(p) for p in spec["path"]][:k_]
        pre_nodes = {p_ for p_, _, _ in ref.ssa_nodes([tuple(x) for x in my_ssa][:k_], n)}

        def from_prefix(**kw):
            with _w.catch_warnings():
                _w.simplefilter("ignore")
                t_ = ctg.ContractionTreeCompressed.from_path(inputs, output, sizes, autocomplete=True, **kw)
            return t_.is_complete(), set(t_.children)

        for form, kw in (("path", {"path": prefix}), ("ssa_path", {"ssa_path": [tuple(x) for x in my_ssa][:k_]})):
            ok, r_ = guarded(from_prefix, **kw)
            if not ok:
                viol.append(
                    f"ContractionTreeCompressed.from_path({form}=<first {k_} of {len(spec['path'])} steps>, autocomplete=True) raised {r_}"
                )
            elif not r_[0] or not pre_nodes <= r_[1]:
                viol.append(
                    f"ContractionTreeCompressed.from_path({form}=<first {k_} steps>, autocomplete=True): "
                    f"{'incomplete tree' if not r_[0] else 'the given steps are not nodes of the tree'}"
                )

    # general paths (1..3 tensor steps, maybe incomplete, explicit N)
    gpath = [tuple(s) for s in spec["gpath"]]
    gref = ref.linear_to_ssa_ref(gpath, n)
    complete = (n - sum(len(s) - 1 for s in gpath)) == 1
    for N in ([n] if not complete else [n, None]):
        ok, s = guarded(pb.linear_to_ssa, gpath, N)
        if not ok:
            viol.append(f"linear_to_ssa(N={N}) raised {s}")
            continue
        if norm(s) != norm(gref):
            viol.append(f"linear_to_ssa({gpath}, N={N}) = {s}, reference {gref}")
            continue
        ok, l = guarded(pb.ssa_to_linear, s, N)
        if not ok or norm(l) != norm(gpath):
            viol.append(f"ssa_to_linear(linear_to_ssa(p), N={N}) = {l} != p = {gpath}")
        ok, l = guarded(pb.ssa_to_linear, gref, N)
        if not ok:
            viol.append(f"ssa_to_linear(N={N}) raised {l}")
        else:
            ok2, s3 = guarded(pb.linear_to_ssa, l, N)
            if not ok2 or norm(s3) != norm(gref):
                viol.append(f"linear_to_ssa(ssa_to_linear(s), N={N}) = {s3} != s = {gref}")

    # general path -> tree (autocomplete) contains the path's groups as nodes
    with warnings.catch_warnings():
        warnings.simplefilter("ignore")
        ok, tg = guarded(
            ctg.ContractionTree.from_path, inputs, output, sizes,
            path=gpath, autocomplete=True, optimize="greedy",
        )
    if not ok:
        viol.append(f"from_path(general path) raised {tg}")
    else:
        leafsets = {i: frozenset([i]) for i in range(n)}
        nxt = n
        for step in gref:
            grp = frozenset().union(*(leafsets[i] for i in step))
            leafsets[nxt] = grp
            nxt += 1
            if len(grp) > 1 and grp not in tg.info:
                viol.append(f"from_path(general path): group {sorted(grp)} is not a node")
                break
        ok, c = guarded(tg.is_complete)
        if not ok or not c:
            viol.append("from_path(general path, autocomplete=True) is not complete")

    # edge paths
    edge = list(spec["edge"])
    eref = edge_ref(edge, inputs)
    ok, es = guarded(pb.edge_path_to_ssa, edge, inputs)
    if not ok:
        viol.append(f"edge_path_to_ssa raised {es}")
    elif norm(es) != norm(eref):
        viol.append(f"edge_path_to_ssa({edge}) = {list(es)}, reference {eref}")
    else:
        ok, el = guarded(pb.edge_path_to_linear, edge, inputs)
        # reference ssa -> linear
        live = list(range(n))
        nxt = n
        want = []
        for step in eref:
            pos = sorted(live.index(i) for i in step)
            want.append(tuple(pos))
            for p_ in reversed(pos):
                live.pop(p_)
            live.append(nxt)
            nxt += 1
        if not ok or norm(el) != norm(want):
            viol.append(f"edge_path_to_linear({edge}) = {el}, reference {want}")
        with warnings.catch_warnings():
            warnings.simplefilter("ignore")
            ok, te = guarded(
                ctg.ContractionTree.from_path, inputs, output, sizes,
                edge_path=edge, autocomplete=True, optimize="greedy",
            )
        if not ok:
            viol.append(f"from_path(edge_path) raised {te}")
        else:
            leafsets = {i: frozenset([i]) for i in range(n)}
            nxt = n
            for step in eref:
                grp = frozenset().union(*(leafsets[i] for i in step))
                leafsets[nxt] = grp
                nxt += 1
                if grp not in te.info:
                    viol.append(f"from_path(edge_path): group {sorted(grp)} is not a node")
                    break
            ok, c = guarded(te.is_complete)
            if not ok or not c:
                viol.append("from_path(edge_path, autocomplete=True) is not complete")

    cls = gen.net_classes(net)
    multi = any(len(s) != 2 for s in gpath)
    nontrivial = n >= 4 and (
        o not in (None, "dfs") or multi or (bool(edge) and "hyper" in cls)
    )
    tags = [f"order={o}", f"n={min(n, 9)}{'+' if n > 9 else ''}"]
    if multi:
        tags.append("non_pair_steps")
    if not complete:
        tags.append("incomplete_path")
    if edge:
        tags.append("edge_path")
        if len(eref) < len(edge):
            tags.append("edge_skips")
    return Outcome(viol, nontrivial, tags)
