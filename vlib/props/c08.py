"""C08 - the hyper-optimizer returns its best trial and reports that trial's true costs."""

import math
import warnings

from hypothesis import strategies as st

from .. import gen, ref
from ..harness import Outcome, guarded

ID = "C08"
LEVEL = "exploration"
RULE = (
    "Hypothesis draws (network, method subset incl. a harness method that "
    "fails on drawn parameter values, one of the five exact objectives, "
    "post-processing in {none, slicing_opts, reconf_opts plain/forested, "
    "slicing_reconf_opts, simulated_annealing_opts}, max_repeats 1..8, "
    "executor in {serial, harness-owned pool whose completion order is a "
    "drawn schedule - optionally with a pickle boundary around every task and "
    "result (process-pool protocol) -, real ThreadPoolExecutor}, deterministic "
    "early stopping max_time='equil:K', optionally a second search through the "
    "same optimizer object). Oracle: returned tree is a "
    "complete tree of the query; exactly the requested number of trials is "
    "recorded (at most that many under early stopping; with only the harness "
    "method also: no more invocations than requested); "
    "best score == min(scores); the (flops, write, size) recorded at the "
    "arg-min trial == contract_stats() of the RETURNED tree == independent "
    "CostRef of its path + sliced labels; score recomputed from the returned "
    "tree agrees within the documented 1e-6 smudge; failed trials carry inf "
    "and are exactly the trials whose drawn parameter was in the fail set; "
    "if every trial failed an exception is the accepted outcome. Non-trivial "
    "= >=2 finite trials and (post-processing or non-serial executor). "
    "Distinct = sha1(spec)."
)
ASSUMPTIONS = [
    "the harness-owned pool runs each trial synchronously when its turn in the drawn schedule comes; the real thread pool samples orders",
    "no real process pool: its protocol (pickled task and result, no shared memory) is emulated in-process by the scheduled pool's pickle mode",
]

# (with explicit factors as well: 'combo-8' is held as the float 8.0 inside)
# ('obj:...' = an Objective instance with a non-integer factor, which has no string form)
OBJECTIVES = ["flops", "size", "write", "combo", "limit", "combo-8", "limit-3", "obj:combo-0.5", "obj:limit-2.5", "obj:combo-1e-05"]
REAL_METHODS = ["greedy", "random-greedy", "labels", "kahypar", "random"]
FLAKY = "verif-flaky"


def resolve_objective(ctg, name):
    if name == "obj:combo-0.5":
        return ctg.scoring.ComboObjective(factor=0.5)
    if name == "obj:combo-1e-05":
        return ctg.scoring.ComboObjective(factor=1e-5)
    if name == "obj:limit-2.5":
        return ctg.scoring.LimitObjective(factor=2.5)
    return name

_state = {"fail": frozenset(), "calls": []}


def _register():
    from cotengra.hyperoptimizers import hyper as H

    if FLAKY in H._PATH_FNS:
        return

    def flaky(inputs, output, size_dict, x=0, **_):
        import cotengra as ctg

        _state["calls"].append(x)
        if x in _state["fail"]:
            raise RuntimeError(f"verif-flaky fails on x={x}")
        opt = ctg.pathfinders.path_random.RandomOptimizer(seed=x)
        return opt.search(inputs, output, size_dict)

    H.register_hyper_function(FLAKY, flaky, {"x": {"type": "INT", "min": 0, "max": 9}})


class _Future:
    def __init__(self, pool, fn, args, kwargs):
        self.pool, self.fn, self.args, self.kwargs = pool, fn, args, kwargs
        self._done = False
        self._res = None
        self._exc = None
        self.cancelled = False

    def _run(self):
        try:
            if self.pool.pickle:
                # process-pool protocol: task and result cross a pickle boundary
                import pickle

                fn, args, kwargs = pickle.loads(pickle.dumps((self.fn, self.args, self.kwargs)))
                self._res = pickle.loads(pickle.dumps(fn(*args, **kwargs)))
            else:
                self._res = self.fn(*self.args, **self.kwargs)
        except BaseException as e:  # noqa
            self._exc = e
        self._done = True

    def done(self):
        if not self._done:
            self.pool._advance()
        return self._done

    def result(self):
        if not self._done:
            self._run()
            self.pool.pending.remove(self)
        if self._exc is not None:
            raise self._exc
        return self._res

    def cancel(self):
        self.cancelled = True
        return not self._done


class ScheduledPool:
    """A pool whose completion order is the drawn ``schedule``: whenever the
    optimizer polls, the next scheduled pending future is run to completion."""

    def __init__(self, schedule, workers, pickle=False):
        self.pickle = pickle
        self.schedule = list(schedule)
        self.k = 0
        self.pending = []
        self._max_workers = workers
        self.polls = 0
        self.order = []

    def submit(self, fn, *args, **kwargs):
        f = _Future(self, fn, args, kwargs)
        f.idx = len(self.order) + len(self.pending)
        self.pending.append(f)
        return f

    def _advance(self):
        # complete one more future only when no completed one is waiting
        self.polls += 1
        if not self.pending:
            return
        if any(f._done for f in self.pending):
            return
        s = self.schedule[self.k % len(self.schedule)] if self.schedule else 0
        self.k += 1
        f = self.pending[s % len(self.pending)]
        f._run()
        self.order.append(f.idx)

    # futures are dropped from pending lazily
    def _gc(self):
        self.pending = [f for f in self.pending if not f._done]


# the optimizer deletes futures from its own list; keep ours in sync by
# treating completed futures as no longer pending at the next advance
_orig_advance = ScheduledPool._advance


def _advance(self):
    self.pending = [f for f in self.pending if not f._done]
    _orig_advance(self)


ScheduledPool._advance = _advance


@st.composite
def cases(draw):
    net = draw(
        gen.networks(
            min_n=3, max_n=8, volume_limit=2**60, max_dim=4,
            allow_repeat=draw(st.booleans()), allow_single=draw(st.booleans()),
        )
    )
    executor = draw(st.sampled_from(["serial", "serial", "scheduled", "scheduled", "threads"]))
    pool_ok = REAL_METHODS if executor != "threads" else ["greedy", "random-greedy", "labels", "random"]
    methods = draw(st.lists(st.sampled_from(pool_ok), min_size=0, max_size=2, unique=True))
    use_flaky = draw(st.booleans()) or not methods
    if use_flaky:
        methods = methods + [FLAKY]
    post = draw(st.sampled_from(["none", "none", "slicing", "reconf", "reconf_forest", "slicing_reconf", "anneal"]))
    return {
        "net": net,
        "methods": methods,
        "fail": sorted(draw(st.sets(st.integers(0, 9), max_size=6))) if use_flaky else [],
        "minimize": draw(st.sampled_from(OBJECTIVES)),
        "post": post,
        # sometimes a second, different, post-processing stage chained on top
        "post2": draw(st.sampled_from(["none", "none", "slicing", "reconf", "slicing_reconf", "anneal"])),
        "post_div": draw(st.sampled_from([2, 4])),
        "max_repeats": draw(st.integers(1, 8)),
        "executor": executor,
        "schedule": draw(st.lists(st.integers(0, 7), min_size=1, max_size=8)),
        "workers": draw(st.integers(1, 3)),
        # the scheduled pool may put a pickle boundary around every task
        "pickle": draw(st.booleans()),
        # deterministic early stopping: stop after K trials without improvement
        "equil": draw(st.sampled_from([None, None, None, 0, 1, 2])),
        # search a second time through the same optimizer object (it carries on)
        "again": draw(st.sampled_from([False, False, True])),
        "seed": draw(st.integers(0, 999)),
        # (also with the parameter-free 'random' method, which leaves cmaes
        # nothing to tune)
        "optlib": draw(st.sampled_from(["random", "random", "random", "cmaes"])),
    }


def strategy(tier, sub=None):
    return cases()


def budget(tier, sub=None):
    return {"examples": 16000 if tier == "quick" else 480000, "shards": 16}


def run_case(spec, sub=None):
    import cotengra as ctg

    from .c05 import check_tree

    _register()
    net = spec["net"]
    inputs = [tuple(t) for t in net["inputs"]]
    output = tuple(net["output"])
    sizes = dict(net["sizes"])
    viol = []
    _state["fail"] = frozenset(spec["fail"])
    _state["calls"] = []
    # optlibs other than 'random' take no seed and draw from the global
    # generators: pin those from the spec so the case stays replayable
    import random

    import numpy as np

    random.seed(spec["seed"])
    np.random.seed(spec["seed"])

    # a size every unsliced tree exceeds or not - target relative to greedy
    base = ctg.array_contract_tree(inputs, output, sizes, optimize="greedy")
    tsize = max(1, base.max_size() // spec["post_div"])
    kw = {}
    post = spec["post"]
    posts = [post] + ([spec.get("post2", "none")] if post != "none" else [])
    for pp in posts:
        if pp == "slicing":
            kw["slicing_opts"] = {"target_size": tsize, "max_repeats": 2}
        elif pp == "reconf" and "reconf_opts" not in kw:
            kw["reconf_opts"] = {"subtree_size": 4, "maxiter": 3}
        elif pp == "reconf_forest":
            kw["reconf_opts"] = {
                "forested": True, "num_trees": 2, "num_restarts": 1,
                "subtree_maxiter": 2, "subtree_size": 4, "parallel": False,
            }
        elif pp == "slicing_reconf":
            kw["slicing_reconf_opts"] = {
                "target_size": tsize, "max_repeats": 2,
                "reconf_opts": {"subtree_size": 4, "maxiter": 2},
            }
        elif pp == "anneal":
            kw["simulated_annealing_opts"] = {"tsteps": 2, "numiter": 2, "seed": spec["seed"]}

    pool = None
    tp = None
    if spec["executor"] == "scheduled":
        pool = ScheduledPool(spec["schedule"], spec["workers"], pickle=bool(spec.get("pickle")))
        parallel = pool
    elif spec["executor"] == "threads":
        from concurrent.futures import ThreadPoolExecutor

        tp = ThreadPoolExecutor(spec["workers"])
        parallel = tp
    else:
        parallel = False

    holder = {}

    def go():
        with warnings.catch_warnings():
            warnings.simplefilter("ignore")
            opt = ctg.HyperOptimizer(
                methods=list(spec["methods"]), minimize=resolve_objective(ctg, spec["minimize"]),
                max_repeats=spec["max_repeats"], parallel=parallel,
                optlib=spec.get("optlib", "random"), on_trial_error="ignore",
                max_time=None if spec.get("equil") is None else f"equil:{spec['equil']}",
                **({"seed": spec["seed"]} if spec.get("optlib", "random") == "random" else {}),
                **kw,
            )
            holder["opt"] = opt
            try:
                tree = opt.search(inputs, output, sizes)
                if spec.get("again"):
                    tree = opt.search(inputs, output, sizes)
            except Exception as e:
                e._opt = opt
                raise
            return opt, tree

    try:
        ok, res = guarded(go)
    finally:
        if tp is not None:
            tp.shutdown(wait=True)
    cls = [f"exec={spec['executor']}" + ("+pickle" if spec.get("pickle") and spec["executor"] == "scheduled" else ""), f"post={post}", f"minimize={spec['minimize']}", f"optlib={spec.get('optlib', 'random')}", f"stages={len(kw)}"]
    nfinite = 0
    if not ok:
        # accepted only if every trial failed
        calls = list(_state["calls"])
        all_flaky_failed = (
            len(calls) == spec["max_repeats"]
            and all(x in _state["fail"] for x in calls)
        )
        if spec.get("equil") is not None and "opt" in holder:
            # early stopping: the search may end before all requested trials
            # ran; what counts is that every trial it ASSESSED had failed
            rec = list(holder["opt"].scores)
            all_flaky_failed = (
                1 <= len(rec) <= spec["max_repeats"]
                and all(s_ == float("inf") for s_ in rec)
                and all(m_ == FLAKY and p_.get("x") in _state["fail"] for m_, p_ in zip(holder["opt"].method_choices, holder["opt"].param_choices))
            )
        if all_flaky_failed and "KeyError" in res:
            cls.append("all_trials_failed")
        else:
            viol.append(f"HyperOptimizer.search raised {res}")
    else:
        opt, tree = res
        check_tree(tree, inputs, output, sizes, viol, "returned tree")
        scores = list(opt.scores)
        R = spec["max_repeats"] * (2 if spec.get("again") else 1)
        if spec.get("equil") is None:
            if len(scores) != R:
                viol.append(f"{len(scores)} trials recorded, {R} requested")
        elif not (1 <= len(scores) <= R):
            viol.append(f"{len(scores)} trials recorded, at most {R} requested (early stopping on)")
        if list(spec["methods"]) == [FLAKY] and len(_state["calls"]) > R:
            viol.append(f"{len(_state['calls'])} trials were run, {R} requested")
        if not (len(opt.costs_flops) == len(opt.costs_write) == len(opt.costs_size) == len(scores) == len(opt.method_choices) == len(opt.param_choices)):
            viol.append("trial records have different lengths")
        finite = [s for s in scores if s < float("inf")]
        nfinite = len(finite)
        if not viol and finite:
            if opt.best["score"] != min(scores):
                viol.append(f"best score {opt.best['score']} != min over trials {min(scores)}")
            if opt.best.get("tree") is not tree:
                viol.append("returned tree is not the best trial's tree")
            stats = tree.contract_stats()
            cands = [i for i, s in enumerate(scores) if s == min(scores)]
            rec = [(opt.costs_flops[i], opt.costs_write[i], opt.costs_size[i]) for i in cands]
            now = (stats["flops"], stats["write"], stats["size"])
            if now not in rec:
                viol.append(
                    f"recorded (flops, write, size) of the winning trial {rec[0]} != "
                    f"figures of the returned tree {now}"
                )
            # independent model of the returned tree
            removed = [(ix, si.project) for ix, si in tree.sliced_inds.items()]
            cr = ref.CostRef(tree.inputs, tree.output, tree.size_dict, removed)
            st_ = cr.stats([(p, l, r) for p, l, r in tree.traverse()])
            if (st_["flops"], st_["write"], st_["size"]) != now:
                viol.append(f"returned tree reports {now}, definition {(st_['flops'], st_['write'], st_['size'])}")
            # recomputed score
            okk, sc = guarded(lambda: opt.objective({"tree": tree}) ** opt.score_compression)
            if not okk:
                viol.append(f"re-scoring the returned tree raised {sc}")
            elif abs(sc - opt.best["score"]) > 1e-5:
                viol.append(f"score recomputed from the returned tree {sc} != recorded best {opt.best['score']}")
            # winning parameters recorded with the winner
            bi = cands[0]
            if opt.best["params"].get("method") != opt.method_choices[bi] and len(cands) == 1:
                viol.append(
                    f"best['params']['method']={opt.best['params'].get('method')} but the arg-min trial used {opt.method_choices[bi]}"
                )
        # failures: exactly the flaky trials whose x is in the fail set
        if not viol:
            for i, (mth, par, s) in enumerate(zip(opt.method_choices, opt.param_choices, scores)):
                should_fail = mth == FLAKY and par.get("x") in _state["fail"]
                if should_fail != (s == float("inf")):
                    viol.append(
                        f"trial {i} ({mth}, {par}) {'should have failed' if should_fail else 'should not have failed'}: score {s}"
                    )
                    break
                if should_fail and not (
                    opt.costs_flops[i] == opt.costs_write[i] == opt.costs_size[i] == float("inf")
                ):
                    viol.append(f"failed trial {i} has finite recorded costs")
                    break
        if not finite and not viol:
            viol.append("search returned although no trial succeeded")
        if pool is not None:
            cls.append("schedule_reordered" if pool.order != sorted(pool.order) else "schedule_in_order")
    if spec["fail"] and FLAKY in spec["methods"]:
        cls.append("with_failures")
    if spec.get("equil") is not None:
        cls.append("early_stopping")
    if spec.get("again"):
        cls.append("searched_twice")
    nontrivial = nfinite >= 2 and (post != "none" or spec["executor"] != "serial")
    return Outcome(viol, nontrivial, cls, {"trials": len(_state["calls"])})
