"""C11 - cotengra's matmul based einsum and tensordot agree with the reference."""

import itertools

import numpy as np
from hypothesis import strategies as st

from .. import ref
from ..harness import Outcome, guarded

ID = "C11"
LEVEL = "exploration"
RULE = (
    "Generated: one- and two-operand equations over <=5 symbols, operand rank "
    "<=4 (repeated labels, batch, outer, Hadamard, size-1 dims, size-1 axes "
    "stretched against longer ones as numpy broadcasts them), any ordered "
    "output, shapes from {1,2,3,4}; tensordot with every integer axes and "
    "drawn valid axis-list pairs; single-operand equations both through the "
    "public einsum and through the documented matmul-free fallback (a backend "
    "without einsum, so _parse_einsum_single runs). Enumerated (thorough: all; "
    "quick: a 1/24 residue class): EVERY two-operand equation over a 3-symbol "
    "alphabet with rank <=3 and every ordered output x every shape assignment "
    "from {1,2,3}. Oracle: independent dense evaluator (and numpy.einsum / "
    "numpy.tensordot), exact on integer-valued arrays, shape included. "
    "Non-trivial = repeated label, size-1 label or batch label present. "
    "Distinct = sha1(spec)."
)
ASSUMPTIONS = [
    "broadcast shapes (a size-1 axis against a longer one for the same label) are judged against numpy.einsum; the dense evaluator needs one size per label",
    "tensordot axes given as an int or as a pair of sequences (the documented forms); negative axis numbers included",
]

SYMS = "abcde"


@st.composite
def eq_cases(draw):
    nsym = draw(st.integers(1, 5))
    syms = list(SYMS[:nsym])
    nops = draw(st.sampled_from([1, 2, 2, 2]))
    terms = [
        draw(st.lists(st.sampled_from(syms), min_size=0, max_size=4))
        for _ in range(nops)
    ]
    used = list(dict.fromkeys(ix for t in terms for ix in t))
    k = draw(st.integers(0, len(used)))
    out = (
        draw(st.lists(st.sampled_from(used), min_size=k, max_size=k, unique=True))
        if used
        else []
    )
    sizes = {ix: draw(st.sampled_from([1, 2, 2, 3, 3, 4])) for ix in used}
    # broadcasting: an axis of one operand may have size 1 where the label has
    # a larger size on the other operand (numpy.einsum stretches it; the
    # library's matmul plan says it supports that). [operand, axis] pairs.
    stretch = []
    if nops == 2 and draw(st.integers(0, 3)) == 0:
        cand = [(i, j) for i, t in enumerate(terms) for j, ix in enumerate(t) if sizes[ix] > 1 and t.count(ix) == 1]
        if cand:
            stretch = [list(x) for x in draw(st.lists(st.sampled_from(cand), min_size=1, max_size=2, unique=True))]
    return {
        "kind": "einsum",
        "terms": ["".join(t) for t in terms],
        "out": "".join(out),
        "sizes": sizes,
        "stretch": stretch,
        # how the equation is written: explicit output, implicit output (when the
        # drawn output IS the implicit one) and/or with spaces, as numpy accepts
        "spaces": draw(st.integers(0, 5)) == 0,
        "implicit": draw(st.integers(0, 3)) == 0,
        "fallback": draw(st.booleans()),
        "aseed": draw(st.integers(0, 99)),
        "dtype": draw(st.sampled_from(["f", "c"])),
    }


@st.composite
def td_cases(draw):
    ra = draw(st.integers(0, 4))
    rb = draw(st.integers(0, 4))
    mode = draw(st.sampled_from(["int", "lists"]))
    if mode == "int":
        k = draw(st.integers(0, min(ra, rb)))
        shared = [draw(st.sampled_from([1, 2, 3])) for _ in range(k)]
        sa = [draw(st.sampled_from([1, 2, 3])) for _ in range(ra - k)] + shared
        sb = shared + [draw(st.sampled_from([1, 2, 3])) for _ in range(rb - k)]
        axes = k
    else:
        k = draw(st.integers(0, min(ra, rb)))
        ax_a = draw(st.lists(st.integers(0, max(ra - 1, 0)), min_size=k, max_size=k, unique=True)) if ra else []
        ax_b = draw(st.lists(st.integers(0, max(rb - 1, 0)), min_size=len(ax_a), max_size=len(ax_a), unique=True)) if rb else []
        ax_a = ax_a[: len(ax_b)]
        sa = [draw(st.sampled_from([1, 2, 3])) for _ in range(ra)]
        sb = [draw(st.sampled_from([1, 2, 3])) for _ in range(rb)]
        for i, j in zip(ax_a, ax_b):
            sb[j] = sa[i]
        # any axis may be written negatively (counting from the end), as
        # numpy.tensordot accepts
        neg_a = draw(st.lists(st.booleans(), min_size=len(ax_a), max_size=len(ax_a)))
        neg_b = draw(st.lists(st.booleans(), min_size=len(ax_b), max_size=len(ax_b)))
        ax_a = [i - ra if ng else i for i, ng in zip(ax_a, neg_a)]
        ax_b = [j - rb if ng else j for j, ng in zip(ax_b, neg_b)]
        axes = [ax_a, ax_b]
    return {
        "kind": "tensordot",
        "sa": sa,
        "sb": sb,
        "axes": axes,
        "aseed": draw(st.integers(0, 99)),
        "dtype": draw(st.sampled_from(["f", "c"])),
    }


def strategy(tier, sub=None):
    return st.one_of(eq_cases(), eq_cases(), td_cases())


def budget(tier, sub=None):
    return {"examples": 16000 if tier == "quick" else 400000, "shards": 16}


_FALLBACK_READY = False


def fallback_backend():
    """An autoray backend that has transpose/sum/reshape/matmul/multiply but
    no einsum: cotengra documents falling back to its own single-operand plan
    in that case."""
    global _FALLBACK_READY
    import autoray as ar

    if not _FALLBACK_READY:
        for fn in ("sum", "transpose", "reshape", "matmul", "multiply"):
            ar.register_function("verifnoeinsum", fn, getattr(np, fn))
        _FALLBACK_READY = True
    return "verifnoeinsum"


def run_einsum(spec):
    import importlib

    cc = importlib.import_module("cotengra.contract")

    terms = [tuple(t) for t in spec["terms"]]
    out = tuple(spec["out"])
    sizes = dict(spec["sizes"])
    arrays = ref.make_arrays(terms, sizes, spec["aseed"], spec.get("dtype", "f"))
    eq = ",".join(spec["terms"]) + "->" + spec["out"]
    flat_ = "".join(spec["terms"])
    implicit_out = "".join(sorted(ch for ch in set(flat_) if flat_.count(ch) == 1))
    if spec.get("implicit") and spec["out"] == implicit_out:
        eq = ",".join(spec["terms"])
    if spec.get("spaces"):
        eq = eq.replace(",", " , ").replace("->", " -> ")
    stretched = False
    for i, j in spec.get("stretch") or []:
        # keep only the first hyperplane along that axis: a size-1 axis
        arrays[i] = np.take(arrays[i], [0], axis=j)
        stretched = True
    if stretched:
        # the dense evaluator wants one size per label: numpy.einsum is the
        # reference for broadcast shapes (cases it rejects are skipped)
        try:
            exp = np.einsum(eq, *arrays)
        except Exception:
            return Outcome([], False, ["numpy_rejects_stretch"])
    else:
        exp = ref.dense_ref(terms, out, sizes, arrays)
    viol = []
    if len(terms) == 1 and spec.get("fallback"):
        ok, got = guarded(cc.einsum, eq, arrays[0], backend=fallback_backend())
        what = "einsum(single, no-einsum backend)"
    else:
        ok, got = guarded(cc.einsum, eq, *arrays)
        what = "einsum"
    if not ok:
        viol.append(f"{what}('{eq}', shapes {[a.shape for a in arrays]}) raised {got}")
    else:
        got = np.asarray(got)
        if got.shape != exp.shape:
            viol.append(f"{what}('{eq}', shapes {[a.shape for a in arrays]}): shape {got.shape} != {exp.shape}")
        elif not np.array_equal(got, exp):
            viol.append(f"{what}('{eq}', shapes {[a.shape for a in arrays]}): wrong values")
    flat = "".join(spec["terms"])
    cls = []
    if any(len(set(t)) != len(t) for t in terms):
        cls.append("repeat")
    if any(sizes[ix] == 1 for ix in sizes):
        cls.append("size1")
    if len(terms) == 2:
        sa, sb = set(terms[0]), set(terms[1])
        if sa & sb & set(out):
            cls.append("batch")
        if not (sa & sb):
            cls.append("outer")
        if sa == sb and sa == set(out) and sa:
            cls.append("hadamard")
        if (sa & sb) - set(out):
            cls.append("contracted")
    else:
        cls.append("single_operand")
        if spec.get("fallback"):
            cls.append("fallback_plan")
    if stretched:
        cls.append("stretched_size1_axis")
    if "->" not in eq:
        cls.append("implicit_output")
    if " " in eq:
        cls.append("spaces")
    nontrivial = bool({"repeat", "size1", "batch", "stretched_size1_axis"} & set(cls))
    return Outcome(viol, nontrivial, cls)


def run_tensordot(spec):
    import importlib

    cc = importlib.import_module("cotengra.contract")

    sa, sb = tuple(spec["sa"]), tuple(spec["sb"])
    la = [f"a{i}" for i in range(len(sa))]
    lb = [f"b{i}" for i in range(len(sb))]
    sizes = {**dict(zip(la, sa)), **dict(zip(lb, sb))}
    a, b = ref.make_arrays([la, lb], sizes, spec["aseed"], spec.get("dtype", "f"))
    axes = spec["axes"]
    if isinstance(axes, int):
        np_axes = axes
        ctg_axes = axes
    else:
        np_axes = (list(axes[0]), list(axes[1]))
        ctg_axes = (tuple(axes[0]), tuple(axes[1]))
    exp = np.tensordot(a, b, np_axes)
    viol = []
    ok, got = guarded(cc.tensordot, a, b, ctg_axes)
    if not ok:
        viol.append(f"tensordot(shapes {sa},{sb}, axes={axes}) raised {got}")
    else:
        got = np.asarray(got)
        if got.shape != exp.shape:
            viol.append(f"tensordot(shapes {sa},{sb}, axes={axes}): shape {got.shape} != {exp.shape}")
        elif not np.array_equal(got, exp):
            viol.append(f"tensordot(shapes {sa},{sb}, axes={axes}): wrong values")
    cls = ["tensordot", "axes_int" if isinstance(axes, int) else "axes_lists"]
    if not isinstance(axes, int) and any(x < 0 for x in list(axes[0]) + list(axes[1])):
        cls.append("negative_axes")
    if 1 in sa or 1 in sb:
        cls.append("size1")
    return Outcome(viol, "size1" in cls or isinstance(axes, int), cls)


def run_case(spec, sub=None):
    if spec["kind"] == "tensordot":
        return run_tensordot(spec)
    return run_einsum(spec)


# ---------------------------------------------------------------------------
# exhaustive enumeration over a 3-symbol alphabet
# ---------------------------------------------------------------------------


def all_terms(syms, max_rank):
    for r in range(max_rank + 1):
        for t in itertools.product(syms, repeat=r):
            yield "".join(t)


def enumerate_specs(shard, nshards, residue_mod, residue):
    syms = "abc"
    k = 0
    terms = list(all_terms(syms, 3))
    shapes = list(itertools.product([1, 2, 3], repeat=3))
    for ta in terms:
        for tb in terms:
            used = list(dict.fromkeys(ta + tb))
            for r in range(len(used) + 1):
                for out in itertools.permutations(used, r):
                    k += 1
                    if k % residue_mod != residue:
                        continue
                    if (k // residue_mod) % nshards != shard:
                        continue
                    for shp in shapes:
                        sizes = {ix: d for ix, d in zip(syms, shp) if ix in used}
                        if len(used) < 3 and any(
                            d != 1 for ix, d in zip(syms, shp) if ix not in used
                        ):
                            continue  # do not repeat the same case
                        yield {
                            "kind": "einsum",
                            "terms": [ta, tb],
                            "out": "".join(out),
                            "sizes": sizes,
                            "fallback": False,
                            "aseed": 3,
                            "dtype": "f",
                        }


def shard_main(tier, seed, shard, nshards, state):
    import sys

    from .. import harness

    mod = sys.modules[__name__]
    harness.run_hypothesis_shard(mod, tier, seed, shard, nshards, state)
    if state.fail is not None:
        return
    if tier == "thorough":
        it = enumerate_specs(shard, nshards, 1, 0)
    else:
        it = enumerate_specs(shard, nshards, 24, int(seed) % 24)
    for spec in it:
        out = run_einsum(spec)
        out.classes = list(out.classes) + ["enumerated"]
        state.record(spec, out)
        if out.violations:
            state.fail = (spec, out.violations)
            return


def coverage_extra(tier, stats):
    if tier == "thorough":
        return {
            "exhaustive_subspace": "all two-operand equations over {a,b,c}, rank<=3, all ordered outputs, all shapes from {1,2,3} (class 'enumerated')",
        }
    return {"enumerated_fraction": "1/24 of the 3-symbol equation space (residue class chosen by VERIF_SEED)"}
