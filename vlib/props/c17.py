"""C17 - operations that take a seed are deterministic functions of their arguments."""

import json
import os
import shutil
import subprocess
import sys
import tempfile

from hypothesis import strategies as st

from .. import gen
from ..harness import HarnessError, Outcome

ID = "C17"
LEVEL = "exploration"
RULE = (
    "Hypothesis draws batches of (seeded API, network, arguments, integer "
    "seed) over: RandomGreedyOptimizer, optimize_random_greedy_track_flops, "
    "RandomOptimizer, labels/kahypar build_divide and build_agglom, "
    "tree.slice, SliceFinder, subtree_reconfigure (random select and random "
    "subtree search), subtree_reconfigure_forest, simulated_anneal (with "
    "slicing), parallel_temper, unslice_rand, get_subtree, and the generators "
    "rand_equation, tree_equation, randreg_equation, perverse_equation, "
    "lattice_equation, rand_tree, make_rand_size_dict_from_inputs, "
    "make_arrays_from_inputs, make_arrays_from_eq, networkx_graph_to_equation, "
    "and GreedyCompressed / GreedySpan / ContractionProcessor.optimize_greedy "
    "with a temperature, windowed_reconfigure and simulated_anneal of "
    "compressed trees, jitter_dict, labels_partition, the kahypar partitioner. "
    "A third of the tree cases call the seeded non-inplace operation twice on "
    "ONE tree object (optionally one that was reconfigured before): the two "
    "answers must coincide too. Each batch is executed in THREE fresh "
    "interpreters with PYTHONHASHSEED 0/1/4242, each seeding the global "
    "random/numpy generators differently and running every case twice with "
    "unrelated randomness-consuming calls in between. Oracle (differential): "
    "all six digests (path, sliced labels, generated network...) of a case "
    "coincide. Non-trivial = case of an API whose digest changed with the "
    "seed for some case of the batch (it demonstrably consumes randomness). "
    "Distinct = sha1(case)."
)
ASSUMPTIONS = [
    "python backend only (cotengrust absent); parallel=False, or (forest / tempering) a harness pool that runs each task at submit time and returns genuine, already completed concurrent.futures.Future objects",
]

def known_many_parts(case_or_spec, v):
    """Open finding (never generated: it depends on the wall clock): build_divide
    with so many parts that the super-graph is handed to the time limited,
    unseeded 'auto-hq' hyper-optimizer."""
    return "build_divide" in v and "parts=1" in v and False


KNOWN = {"build_divide_many_parts_unseeded_super_optimize": known_many_parts}

TREE_APIS = ["slice", "slicefinder", "reconf", "reconf_forest", "anneal", "temper", "unslice_rand", "get_subtree"]
NET_APIS = [
    "random_greedy_opt", "random_greedy_fn", "random_opt", "labels_divide", "labels_agglom", "kahypar_divide",
    "kahypar_agglom", "rand_size_dict", "rand_arrays",
    "greedy_compressed", "greedy_span", "cp_greedy", "windowed", "compressed_anneal", "jitter_dict",
    "labels_partition", "kahypar_partition",
]
GEN_APIS = ["rand_equation", "tree_equation", "randreg_equation", "perverse_equation", "lattice_equation", "rand_tree", "arrays_from_eq", "nx_equation"]
ORDINARY_NET_APIS = ("greedy_compressed", "greedy_span", "windowed", "compressed_anneal")


@st.composite
def case(draw):
    api = draw(st.sampled_from(TREE_APIS + TREE_APIS + NET_APIS + GEN_APIS + ["reconf", "reconf", "reconf", "reconf", "reconf_forest"]))
    c = {"api": api, "seed": draw(st.integers(0, 2**31 - 1))}
    # one case in eight also gives the seed as a numpy integer: same integer, same result
    c["seed_np"] = draw(st.integers(0, 7)) == 0
    if api in TREE_APIS:
        # a third of the tree cases call the seeded operation twice on ONE tree
        # object, optionally one that has been reconfigured before
        c["same_object"] = draw(st.integers(0, 2)) == 0
        c["pre_reconf"] = draw(st.booleans())
        # the second call is made on the same object, on a copy or on a pickled clone
        c["clone"] = draw(st.sampled_from([None, "pickle", "pickle", "copy"]))
        if api in ("reconf", "reconf_forest") and draw(st.integers(0, 3)) > 0:
            # the reconfiguration family keeps a record of what it has optimized
            # already: exercise it - a tree that has been through an earlier
            # (differently seeded) reconfiguration of the same kind, then the
            # seeded call on it and on an equal tree
            c["same_object"] = True
            c["pre_reconf"] = "like_call"
            c["clone"] = draw(st.sampled_from(["pickle", "pickle", "pickle", "copy", None]))
        net = draw(gen.networks(min_n=8 if c.get("pre_reconf") == "like_call" else 4, max_n=16 if c.get("pre_reconf") == "like_call" else 10, volume_limit=2**60, max_dim=4, allow_size1=False, connected=draw(st.booleans())))
        c["net"] = net
        c["path"] = draw(gen.linear_paths(len(net["inputs"])))
        labels = list(net["sizes"])
        if api == "unslice_rand" or draw(st.integers(0, 3)) == 0:
            k = draw(st.integers(2 if api == "unslice_rand" else 0, 3))
            c["pre_slice"] = draw(st.lists(st.sampled_from(labels), min_size=min(k, len(labels)), max_size=min(k, len(labels)), unique=True)) if labels else []
        if api in ("slice", "slicefinder"):
            c["args"] = {"div": draw(st.sampled_from([2, 4, 8])), "temp": draw(st.sampled_from([0.01, 0.5, 2.0])), "reps": draw(st.integers(1, 6)), "allow_outer": draw(st.sampled_from([True, True, False, "only"]))}
        elif api == "reconf":
            c["args"] = {"size": draw(st.integers(2, 6)), "search": draw(st.sampled_from(["random", "random", "bfs"])), "select": draw(st.sampled_from(["random", "random", "max"])), "maxiter": draw(st.integers(1, 6))}
            if c.get("pre_reconf") == "like_call" and draw(st.integers(0, 3)) > 0:
                # deterministic candidate order: the earlier run and the seeded
                # call visit the same subtrees first, so the record of what is
                # optimized already decides how far the seeded call gets
                c["args"]["search"], c["args"]["select"] = "bfs", "max"
        elif api == "reconf_forest":
            c["args"] = {"num_trees": draw(st.integers(2, 3)), "restarts": draw(st.integers(1, 2)), "maxiter": draw(st.integers(1, 3)), "size": draw(st.integers(2, 5)), "pool": draw(st.sampled_from(["none", "none", "eager"]))}
        elif api == "anneal":
            c["args"] = {"tsteps": draw(st.integers(1, 3)), "numiter": draw(st.integers(1, 3)), "div": draw(st.sampled_from([0, 2, 4])), "slice_mode": draw(st.sampled_from(["basic", "reslice", "drift"]))}
        elif api == "temper":
            c["args"] = {"tsteps": draw(st.integers(1, 2)), "numiter": draw(st.integers(1, 2)), "num_trees": draw(st.integers(2, 3)), "div": draw(st.sampled_from([0, 2])), "pool": draw(st.sampled_from(["none", "none", "eager"]))}
        elif api == "get_subtree":
            c["args"] = {"size": draw(st.integers(2, 8))}
    elif api in NET_APIS:
        big = api.startswith(("labels", "kahypar"))
        if api in ORDINARY_NET_APIS:
            # the compressed finders are specified for connected ordinary networks
            net = draw(gen.networks(min_n=4, max_n=12, volume_limit=2**60, max_dim=4, connected=True, allow_repeat=False, allow_scalar=False, allow_size1=False, allow_single=False))
        else:
            net = draw(gen.networks(min_n=12 if big else 3, max_n=30 if big else 12, volume_limit=2**60, max_dim=4, connected=draw(st.booleans())))
        c["net"] = net
        if api in ("greedy_compressed", "greedy_span", "cp_greedy"):
            c["args"] = {"chi": draw(st.sampled_from([2, 4, 16])), "temp": draw(st.sampled_from([0.1, 0.5, 2.0]))}
        elif api == "windowed":
            c["args"] = {"window": draw(st.integers(2, 6)), "iters": draw(st.integers(1, 6)), "temp": draw(st.sampled_from([0.0, 0.5, 2.0]))}
        elif api == "compressed_anneal":
            c["args"] = {"tsteps": draw(st.integers(1, 3)), "numiter": draw(st.integers(1, 3))}
        elif api == "jitter_dict":
            c["args"] = {"strength": draw(st.sampled_from([0.01, 0.5, 1.0]))}
        elif api == "kahypar_partition":
            c["args"] = {"parts": draw(st.integers(2, 4))}
        if api.startswith("random_greedy"):
            c["args"] = {"max_repeats": draw(st.integers(1, 6))}
        elif api.endswith("divide"):
            c["args"] = {"cutoff": draw(st.integers(2, 8)), "parts": draw(st.integers(2, 4)), "rs": draw(st.sampled_from([0.0, 0.01, 1.0]))}
        elif api.endswith("agglom"):
            c["args"] = {"groupsize": draw(st.integers(2, 6)), "rs": draw(st.sampled_from([0.0, 0.01, 1.0]))}
    else:
        n = draw(st.integers(3, 12))
        if api == "rand_equation":
            c["args"] = {"n": n, "reg": draw(st.integers(2, 4)), "n_out": draw(st.integers(0, 2)), "hin": draw(st.integers(0, 2)), "hout": draw(st.integers(0, 2))}
        elif api == "tree_equation":
            c["args"] = {"n": n, "n_out": draw(st.integers(0, 2))}
        elif api == "randreg_equation":
            c["args"] = {"n": 2 * draw(st.integers(2, 6)), "reg": 3}
        elif api == "perverse_equation":
            c["args"] = {"n": n, "ninds": draw(st.integers(2, 6)), "n_out": draw(st.integers(0, 2))}
        elif api == "arrays_from_eq":
            c["args"] = {"eq": draw(st.sampled_from(["ab,bc->ac", "abc,cd,d->ab", "a,a,a->", "ab,ab->"]))}
        elif api == "nx_equation":
            c["args"] = {"n": 2 * draw(st.integers(2, 6)), "gseed": draw(st.integers(0, 9))}
        elif api == "lattice_equation":
            c["args"] = {"dims": [draw(st.integers(2, 3)), draw(st.integers(2, 3))], "cyclic": draw(st.booleans())}
        else:
            c["args"] = {"n": n, "reg": draw(st.integers(2, 4)), "n_out": draw(st.integers(0, 2))}
    return c


BATCH = 24


def strategy(tier, sub=None):
    return st.lists(case(), min_size=BATCH, max_size=BATCH).map(lambda cs: {"cases": cs})


def budget(tier, sub=None):
    # examples = batches (of BATCH cases, x3 interpreters x2 runs)
    return {"examples": 160 if tier == "quick" else 3200, "shards": 16}


HASHSEEDS = ["0", "1", "4242"]


def run_batch(cases, scratch=None, extra_seed_probe=True):
    """Returns (per-case list of 6 digests, per-case probe digest)."""
    py = os.environ.get("VERIF_PYTHON", sys.executable)
    own = scratch is None
    d = tempfile.mkdtemp(prefix="c17-", dir=scratch)
    try:
        f = os.path.join(d, "batch.json")
        with open(f, "w") as fh:
            json.dump(cases, fh)
        probe_file = os.path.join(d, "probe.json")
        probe_cases = [dict(c, seed=c["seed"] + 1) for c in cases]
        with open(probe_file, "w") as fh:
            json.dump(probe_cases, fh)
        procs = []
        for v, hs in enumerate(HASHSEEDS):
            env = dict(os.environ)
            env["PYTHONHASHSEED"] = hs
            procs.append(
                subprocess.Popen(
                    [py, "-m", "vlib.c17worker", f, str(v)],
                    stdout=subprocess.PIPE, stderr=subprocess.PIPE, env=env,
                    cwd=os.path.dirname(os.path.dirname(os.path.dirname(os.path.abspath(__file__)))),
                )
            )
        if extra_seed_probe:
            env = dict(os.environ)
            env["PYTHONHASHSEED"] = "0"
            procs.append(
                subprocess.Popen(
                    [py, "-m", "vlib.c17worker", probe_file, "0"],
                    stdout=subprocess.PIPE, stderr=subprocess.PIPE, env=env,
                    cwd=os.path.dirname(os.path.dirname(os.path.dirname(os.path.abspath(__file__)))),
                )
            )
        outs = []
        for p in procs:
            try:
                so, se = p.communicate(timeout=1200)
            except subprocess.TimeoutExpired:
                p.kill()
                raise HarnessError("c17 worker exceeded the wall-clock watchdog")
            if p.returncode != 0:
                raise HarnessError(f"c17 worker exit {p.returncode}: {se.decode()[-1500:]}")
            try:
                outs.append(json.loads(so.decode()))
            except ValueError:
                raise HarnessError(f"c17 worker output unparsable: {so[:300]!r} {se.decode()[-800:]}")
    finally:
        shutil.rmtree(d, ignore_errors=True)
    for o in outs:
        for pair in o:
            for d in pair:
                if isinstance(d, dict) and "harness_raised" in d:
                    raise HarnessError(f"c17 worker: {d['harness_raised']}")
    per_case = []
    for i in range(len(cases)):
        per_case.append([outs[v][i][r] for v in range(len(HASHSEEDS)) for r in range(2)])
    probe = [outs[-1][i][0] for i in range(len(cases))] if extra_seed_probe else None
    return per_case, probe


def judge(cases, per_case):
    bad = []
    for i, digs in enumerate(per_case):
        canon = [json.dumps(d, sort_keys=True) for d in digs]
        d0 = digs[0]
        if isinstance(d0, dict) and set(d0) == {"int_seed", "numpy_seed"} and d0["int_seed"] != d0["numpy_seed"]:
            bad.append(
                (
                    i,
                    f"{cases[i]['api']}(seed={cases[i]['seed']}): the seed given as numpy.int64 gives "
                    f"{json.dumps(d0['numpy_seed'])[:140]}, given as int {json.dumps(d0['int_seed'])[:140]}",
                )
            )
            continue
        if isinstance(d0, dict) and set(d0) == {"first", "second"} and d0["first"] != d0["second"]:
            bad.append(
                (
                    i,
                    f"{cases[i]['api']}(seed={cases[i]['seed']}) called twice "
                    f"({ {None: 'on the same tree object', 'pickle': 'on a tree and on its pickled clone', 'copy': 'on a tree and on its copy'}[cases[i].get('clone')] }) with the same "
                    f"arguments (inplace=False) gave different results: {json.dumps(d0['first'])[:120]} vs "
                    f"{json.dumps(d0['second'])[:120]}",
                )
            )
            continue
        if len(set(canon)) != 1:
            a = canon[0]
            j = next(k for k, c in enumerate(canon) if c != a)
            bad.append(
                (
                    i,
                    f"{cases[i]['api']}(seed={cases[i]['seed']}): run {j} (interpreter {j // 2}, "
                    f"PYTHONHASHSEED={HASHSEEDS[j // 2]}, repetition {j % 2}) differs from run 0: "
                    f"{canon[j][:140]} vs {a[:140]}",
                )
            )
    return bad


def run_case(spec, sub=None):
    scratch = os.environ.get("VERIF_SCRATCH")
    cases = spec["cases"]
    per_case, probe = run_batch(cases, scratch)
    bad = judge(cases, per_case)
    sensitive = set()
    for c, digs, pr in zip(cases, per_case, probe):
        if json.dumps(digs[0], sort_keys=True) != json.dumps(pr, sort_keys=True):
            sensitive.add(c["api"])
    viol = [m for _, m in bad]
    out = Outcome(viol, False, [])
    out.cases = cases
    out.bad = [i for i, _ in bad]
    out.sensitive = sensitive
    out.raised = sum(1 for d in per_case if isinstance(d[0], dict) and "raised" in d[0])
    return out


def replay(spec):
    return run_case(spec)


def shard_main(tier, seed, shard, nshards, state):
    import hypothesis
    from hypothesis import HealthCheck, Phase, given, settings
    from hypothesis import seed as hseed

    from .. import harness

    nb = max(1, budget(tier)["examples"] // nshards)

    class Stop(Exception):
        pass

    @hseed(int(seed) * 1000 + shard)
    @settings(
        max_examples=nb, database=None, deadline=None, report_multiple_bugs=False,
        suppress_health_check=list(HealthCheck), phases=(Phase.generate,),
        verbosity=hypothesis.Verbosity.quiet,
    )
    @given(strategy(tier))
    def test(spec):
        out = run_case(spec)
        for c in out.cases:
            o = Outcome([], c["api"] in out.sensitive, [f"api={c['api']}"] + (["seed_sensitive_api"] if c["api"] in out.sensitive else []))
            state.record(c, o)
        state.stats["batches"] = state.stats.get("batches", 0) + 1
        state.stats["interpreter_runs"] = state.stats.get("interpreter_runs", 0) + 4
        state.stats["cases_that_raised_identically"] = state.stats.get("cases_that_raised_identically", 0) + out.raised
        if out.violations:
            # reduce to a single case if it reproduces alone
            small = None
            for i in out.bad:
                one = {"cases": [out.cases[i]]}
                o1 = run_case(one)
                if o1.violations:
                    small = (one, o1.violations)
                    break
            state.fail = small or (spec, out.violations)
            raise Stop()

    try:
        test()
    except Stop:
        pass
