"""C02 - tree transformations never change the value the tree computes."""

from .. import treemachine
from ..harness import Outcome

ID = "C02"
LEVEL = "exploration"
RULE = (
    "Hypothesis draws a history: network + random initial tree + list of <=10 ops "
    "over {subtree_reconfigure(_forest), simulated_anneal, parallel_temper, "
    "remove_ind(slice|project), restore_ind, unslice_rand/all, slice, "
    "slice_and_reconfigure(_forest), sort/reset_contraction_indices, copy, "
    "contract(options), cost queries, print_contractions}, each inplace or not, "
    "each followed by an observation on the real tree (perturbing), on a copy, "
    "or none. State-dependent arguments are integers resolved modulo the live "
    "options (model-based interpreter; the op list is the replay file). Oracle: "
    "tree.contract == dense reference (fixed-index section under projection), "
    "exact; originals kept across copy / inplace=False are re-checked at the "
    "end. A third of the histories are short chains of 2-3 "
    "transformations with no observation in between (optionally after a warming "
    "contract/query); the initial tree comes from my path (linear/SSA), a real "
    "finder or an auto-completed prefix, with any incremental tracker switched on. "
    "Non-trivial = >=2 structure/slicing-changing ops succeeded (class tags say "
    "whether anything observed the tree before the last op). Distinct = sha1(spec)."
)
ASSUMPTIONS = [
    "forest / tempering drivers run serially or on harness-owned in-process pools that "
    "emulate the process-pool (pickle boundary) and scatter-pool (futures) protocols; no real processes",
    "a transformation that raises is counted (classes raised:*), the tree is "
    "restored from a pre-op copy and the history continues: the property "
    "speaks about the state after transformations that complete",
    "numpy backend; single-character labels; <=7 tensors, dims<=4",
]


def strategy(tier, sub=None):
    return treemachine.histories(max_n=7, max_ops=10)


def budget(tier, sub=None):
    return {"examples": 16000 if tier == "quick" else 160000, "shards": 16}


def run_case(spec, sub=None):
    return treemachine.run_history(spec, "value")
