"""C16 - one optimizer object can serve many contractions, in sequence or across threads."""

import sys
import threading
import warnings

from hypothesis import strategies as st

from .. import gen, ref
from ..harness import HarnessError, Outcome, guarded

ID = "C16"
LEVEL = "exploration"
RULE = (
    "(seq) Hypothesis draws sequences (<=6) of queries over a pool of 3-4 "
    "contractions of different N through one shared optimizer: presets "
    "'auto','auto-hq','greedy','optimal'; AutoOptimizer/AutoHQOptimizer with "
    "cache in {True,False} and optimal_cutoff in {0,30,default} (0 forces the "
    "hyper branch); ReusableHyperOptimizer; ReusableRandomGreedyOptimizer; "
    "via search, __call__, array_contract_tree, array_contract_path. (sched) "
    "For generated (optimizer, 2-3 queries) real threads share the optimizer "
    "under a harness-owned scheduler (sys.settrace; exactly one thread runs; "
    "every line of reusable.py, presets.py and the search/_search/__call__/"
    "tree/path/setup methods of hyper.py is a yield point). Quick: the "
    "one-preemption schedules of each case (all, or a stride of <=80) + "
    "drawn two-preemption ones; thorough: ALL one-preemption schedules and "
    "all two-preemption ones (a stride of <=3000 pairs beyond ~78 yield "
    "points). Oracle: every returned "
    "tree is complete and has the N/inputs/output/sizes of ITS query; every "
    "returned path is valid for its query. Non-trivial = sequence with >=2 "
    "different contractions where the hyper branch ran, or a schedule that "
    "actually preempted. Distinct = sha1(spec) (+schedule)."
)
ASSUMPTIONS = [
    "yield points are Python lines in the named files; preemption bound 2 (CHESS)",
    "optimizers built with max_time=None so the number of trials (and yield points) does not depend on the wall clock",
]

KINDS = [
    "preset:auto", "preset:auto-hq", "preset:greedy", "preset:optimal",
    "Auto:cache", "Auto:nocache", "AutoHQ:cache", "AutoHQ:nocache",
    "ReusableHyper", "ReusableRG",
    "ReusableHyper:improved", "ReusableHyper:overwrite", "ReusableRG:improved",
]
THREAD_KINDS = [
    "Auto:cache", "Auto:nocache", "AutoHQ:nocache", "ReusableHyper", "ReusableRG",
    "preset:greedy", "ReusableHyper:improved",
]


@st.composite
def pools(draw, k, lo=2, hi=9):
    sizes_n = draw(st.lists(st.integers(lo, hi), min_size=k, max_size=k, unique=True))
    pool = []
    for n in sizes_n:
        pool.append(
            draw(
                gen.networks(
                    min_n=n, max_n=n, max_rank=3, max_dim=3, volume_limit=2**60,
                    allow_size1=False, alphabets=("ascii",),
                )
            )
        )
    return pool


@st.composite
def seq_cases(draw):
    kind = draw(st.sampled_from(KINDS))
    cutoff = draw(st.sampled_from([0, 0, 30, None]))
    big = kind in ("preset:auto", "Auto:cache", "Auto:nocache") and draw(st.booleans())
    if big:
        # large enough for the default hardness cutoff (250), so that the
        # module level 'auto' preset itself takes its hyper-optimizer branch
        pool = draw(pools(3, 12, 17))
        if kind != "preset:auto":
            cutoff = None
    else:
        pool = draw(pools(draw(st.integers(3, 4))))
    lead = []
    if draw(st.integers(0, 3)) == 0:
        # start with one contraction followed at once by a near copy of it (a
        # twin, or the same labels with other sizes) through the same entry
        qi0 = draw(st.integers(0, len(pool) - 1))
        e0 = draw(st.sampled_from(["search", "call", "tree", "path"]))
        t0, t1 = draw(st.sampled_from([(0, 4), (0, 4), (4, 0), (0, 1), (0, 2), (1, 4)]))
        lead = [(qi0, e0, t0), (qi0, draw(st.sampled_from(["search", e0])), t1)]
    return {
        "mode": "seq",
        "pool": pool,
        "kind": kind,
        "cutoff": cutoff,
        "calls": lead + draw(
            st.lists(
                st.tuples(
                    st.integers(0, len(pool) - 1), st.sampled_from(["search", "call", "tree", "path"]),
                    st.sampled_from([0, 0, 1, 2, 3, 4]),
                ),
                min_size=2, max_size=6,
            )
        ),
    }


@st.composite
def sched_cases(draw):
    nth = draw(st.sampled_from([2, 2, 3]))
    pool = draw(pools(draw(st.integers(2, 3))))
    one = st.tuples(st.integers(0, len(pool) - 1), st.sampled_from([0, 0, 0, 1, 2, 4]), st.sampled_from(["search", "call"]))
    # every thread asks one or two queries in a row; pool members are drawn
    # WITH replacement, so two threads can be inside a search for the same
    # contraction (or for twins of it) at the same time
    tq = [draw(st.lists(one, min_size=1, max_size=2)) for _ in range(nth)]
    return {
        "mode": "sched",
        "pool": pool,
        "kind": draw(st.sampled_from(THREAD_KINDS)),
        "cutoff": 0,
        "tq": [[list(x) for x in l] for l in tq],
        # queries answered sequentially before the threads start
        "warmq": [list(x) for x in draw(st.lists(one, min_size=0, max_size=2))],
        "deep": draw(st.lists(st.tuples(st.integers(1, 400), st.integers(1, 400)), min_size=0, max_size=6)),
    }


@st.composite
def pooled_cases(draw):
    """The shared optimizer runs its trials on an INTERNAL thread pool
    (parallel='threads'), and several real threads ask it at the same moment
    for the first time. Real threads, tiny switch interval: the schedule is the
    operating system's (a stress run, as the property's quantifier names it);
    the oracle is the deterministic one of every other mode."""
    nthreads = draw(st.integers(2, 5))
    return {
        "mode": "pooled",
        "pool": draw(pools(nthreads)),
        "kind": draw(st.sampled_from(["Auto:cache", "Auto:nocache", "ReusableHyper", "ReusableRG", "ReusableHyper:improved"])),
        "cutoff": draw(st.sampled_from([0, 0, None])),
        "backend": draw(st.sampled_from(["threads", "threads", "concurrent.futures"])),
        "entry": draw(st.sampled_from(["search", "call", "tree"])),
        "rounds": draw(st.integers(1, 2)),
    }


def strategy(tier, sub=None):
    k = 3 if tier == "thorough" else 8
    return st.integers(0, 2 * k - 1).flatmap(
        lambda i: sched_cases() if i < 2 else pooled_cases() if i == 2 else seq_cases()
    )


def budget(tier, sub=None):
    return {"examples": 960 if tier == "quick" else 1920, "shards": 16, "timeout": 3000 if tier == "quick" else 6 * 3600}


def build_optimizer(spec):
    import cotengra as ctg
    from cotengra.pathfinders.path_basic import ReusableRandomGreedyOptimizer
    from cotengra.presets import AutoHQOptimizer, AutoOptimizer

    kind = spec["kind"]
    par = spec.get("parallel", False)
    hk = dict(max_repeats=3, max_time=None, optlib="random", parallel=par)
    if kind.startswith("preset:"):
        return kind.split(":")[1]
    if kind.startswith("Auto"):
        cls = AutoHQOptimizer if kind.startswith("AutoHQ") else AutoOptimizer
        kw = dict(cache=kind.endswith(":cache"), **hk)
        if cls is AutoHQOptimizer:
            kw["methods"] = ("greedy",)
        if spec.get("cutoff") is not None:
            kw["optimal_cutoff"] = spec["cutoff"]
        return cls(**kw)
    ow = {"improved": "improved", "overwrite": True}.get(kind.partition(":")[2], False)
    if kind.startswith("ReusableHyper"):
        return ctg.ReusableHyperOptimizer(methods=["greedy"], overwrite=ow, **hk)
    if kind.startswith("ReusableRG"):
        return ReusableRandomGreedyOptimizer(max_repeats=3, parallel=par, overwrite=ow)
    raise ValueError(kind)


def ask(opt, entry, q):
    import cotengra as ctg

    inputs, output, sizes = q
    if isinstance(opt, str):
        if entry in ("search", "tree"):
            return "tree", ctg.array_contract_tree(inputs, output, sizes, optimize=opt, canonicalize=False)
        return "path", ctg.array_contract_path(inputs, output, sizes, optimize=opt, canonicalize=False, cache=False)
    if entry == "search":
        return "tree", opt.search(inputs, output, sizes)
    if entry == "call":
        return "path", opt(inputs, output, sizes)
    if entry == "tree":
        return "tree", ctg.array_contract_tree(inputs, output, sizes, optimize=opt, canonicalize=False)
    return "path", ctg.array_contract_path(inputs, output, sizes, optimize=opt, canonicalize=False, cache=False)


def query(net, twin=0):
    """The contraction of a pool member, or one of its *twins*: the same
    network with the labels of one tensor (1), of the output (2) or of both (3)
    rotated - a different contraction (other axis order) that shares every
    order-insensitive fingerprint with the original."""
    inputs = [tuple(t) for t in net["inputs"]]
    output = tuple(net["output"])
    if twin in (1, 3):
        cand = [i for i, t in enumerate(inputs) if len(set(t)) >= 2]
        if cand:
            i = cand[len(cand) // 2]
            inputs[i] = inputs[i][1:] + inputs[i][:1]
    if twin in (2, 3) and len(output) >= 2:
        output = output[1:] + output[:1]
    sizes = dict(net["sizes"])
    if twin == 4:
        # same labels, every dimension one larger: another contraction again
        sizes = {ix: d + 1 for ix, d in sizes.items()}
    return tuple(inputs), output, sizes


def judge(kind_val, q, what, viol):
    from .c05 import check_tree

    inputs, output, sizes = q
    kind, val = kind_val
    if kind == "tree":
        check_tree(val, inputs, output, sizes, viol, what)
        if not viol and (tuple(map(tuple, val.inputs)) != inputs or tuple(val.output) != output):
            viol.append(f"{what}: the tree belongs to another contraction (inputs/output differ from the query)")
        if not viol and any(val.size_dict.get(ix) != d for ix, d in sizes.items()):
            viol.append(f"{what}: the tree belongs to another contraction (its index sizes are not those of the query)")
    else:
        try:
            p = [tuple(s) for s in val]
        except TypeError:
            viol.append(f"{what}: not a path: {val!r}")
            return
        msg = ref.check_path_valid(p, len(inputs))
        if msg:
            viol.append(f"{what}: path {p} is not valid for a {len(inputs)}-tensor query: {msg}")


def run_seq(spec):
    warnings.filterwarnings("ignore")
    ok, opt = guarded(build_optimizer, spec)
    if not ok:
        return Outcome([f"building {spec['kind']} raised {opt}"], False, ["error"])
    viol = []
    seen = set()
    twins = set()
    for k, call in enumerate(spec["calls"]):
        qi, entry = call[0], call[1]
        tw = call[2] if len(call) > 2 else 0
        q = query(spec["pool"][qi], tw)
        seen.add(qi)
        twins.add((qi, q[0], q[1]))
        what = f"call#{k} {spec['kind']}.{entry}(query {qi}{'abcde'[tw] if tw else ''}, N={len(q[0])})"
        ok, res = guarded(ask, opt, entry, q)
        if not ok:
            viol.append(f"{what} raised {res}")
            break
        judge(res, q, what, viol)
        if viol:
            break
    hyper_branch = spec["kind"].startswith(("Auto", "Reusable")) and (
        spec["kind"].startswith("Reusable") or spec.get("cutoff") == 0
    )
    big = min(len(net["inputs"]) for net in spec["pool"]) >= 12
    hyper_branch = hyper_branch or big
    return Outcome(
        viol, len(seen) >= 2 and hyper_branch,
        ["mode=seq", f"kind={spec['kind']}"] + (["big_networks_default_cutoff"] if big else [])
        + (["twins_asked"] if len(twins) > len(seen) else []),
    )


# ---------------------------------------------------------------------------
# harness-owned thread scheduler
# ---------------------------------------------------------------------------

YIELD_FILES = ("reusable.py", "presets.py")
YIELD_HYPER_FUNCS = {"search", "_search", "__call__", "tree", "path", "setup", "get_tree", "_gen_results", "_maybe_report_result"}


class CoopLock:
    """Stands in for threading.Lock / RLock objects created while a schedule
    runs: a thread that would block hands the turn to another thread instead
    of blocking the whole (one-thread-at-a-time) schedule."""

    def __init__(self, sched, reentrant=False):
        self.sched, self.reentrant = sched, reentrant
        self.owner, self.depth = None, 0

    def acquire(self, blocking=True, timeout=-1):
        me = self.sched.me()
        spins = 0
        while self.owner is not None and not (self.reentrant and self.owner == me):
            if not blocking or me is None:
                return False
            spins += 1
            if spins > 10000:
                raise HarnessError("cooperative lock never became free")
            self.sched.block(me)
        self.owner = me
        self.depth += 1
        return True

    def release(self):
        self.depth -= 1
        if self.depth <= 0:
            self.owner, self.depth = None, 0

    def locked(self):
        return self.owner is not None

    __enter__ = acquire

    def __exit__(self, *exc):
        self.release()
        return False


class Scheduler:
    def me(self):
        return self.idents.get(threading.get_ident())

    def block(self, me):
        """``me`` cannot go on: give the turn to the next live thread."""
        with self.cv:
            nxt = self._next(me)
            if nxt is None:
                raise HarnessError("every scheduled thread is blocked")
            self.switches += 1
            self.current = nxt
            self.cv.notify_all()
            self._wait_turn(me)

    def __init__(self, n, preempt):
        self.idents = {}
        self.cv = threading.Condition()
        self.n = n
        self.current = 0
        self.step = 0
        self.done = [False] * n
        self.preempt = set(preempt)
        self.switches = 0

    def _next(self, me):
        for d in range(1, self.n + 1):
            j = (me + d) % self.n
            if j != me and not self.done[j]:
                return j
        return None

    def _wait_turn(self, me):
        while self.current != me:
            if not self.cv.wait(timeout=60):
                raise HarnessError("scheduler deadlock: a thread waited 60 s for its turn")

    def start(self, me):
        with self.cv:
            self._wait_turn(me)

    def yield_point(self, me):
        with self.cv:
            self.step += 1
            if self.step in self.preempt:
                nxt = self._next(me)
                if nxt is not None:
                    self.switches += 1
                    self.current = nxt
                    self.cv.notify_all()
                    self._wait_turn(me)

    def finish(self, me):
        with self.cv:
            self.done[me] = True
            nxt = self._next(me)
            if nxt is not None:
                self.current = nxt
            self.cv.notify_all()


def run_threads(spec, preempt):
    """Run one schedule. Returns (violations, steps, switches)."""
    if "tq" in spec:
        plans = [[(query(spec["pool"][qi], tw), e, qi, tw) for qi, tw, e in l] for l in spec["tq"]]
        warm = [(query(spec["pool"][qi], tw), e) for qi, tw, e in spec.get("warmq", [])]
    else:  # replay files written before threads had query lists
        plans = [[(query(net), e, i, 0)] for i, (net, e) in enumerate(zip(spec["pool"], spec["entries"]))]
        warm = [(p[0][0], p[0][1]) for p in plans] if spec.get("warm") else []
    n = len(plans)
    sched = Scheduler(n, preempt)
    box = {}
    results = [[] for _ in range(n)]
    # all threads must be alive before any of them runs: otherwise a short
    # lived thread can exit before the next is created and the OS recycles
    # its identity, which would make the schedule (not the oracle) flaky
    barrier = threading.Barrier(n)

    def make_tracer(me):
        def local(frame, event, arg):
            if event == "line":
                sched.yield_point(me)
            return local

        def tracer(frame, event, arg):
            fn = frame.f_code.co_filename
            if fn.endswith(YIELD_FILES) and "/cotengra/" in fn:
                return local
            if fn.endswith("hyper.py") and "/cotengra/" in fn and frame.f_code.co_name in YIELD_HYPER_FUNCS:
                return local
            return None

        return tracer

    def work(me):
        try:
            sched.idents[threading.get_ident()] = me
            barrier.wait(timeout=60)
            sched.start(me)
            sys.settrace(make_tracer(me))
            try:
                for q, e, qi, tw in plans[me]:
                    try:
                        results[me].append(("ok", ask(box["opt"], e, q)))
                    except HarnessError as ex:
                        results[me].append(("harness", str(ex)))
                        break
                    except Exception as ex:  # noqa
                        import traceback

                        tb = traceback.extract_tb(ex.__traceback__)
                        where = next((f"{fr.filename.split('/')[-1]}:{fr.lineno}" for fr in reversed(tb) if "cotengra" in fr.filename), "")
                        results[me].append(("raised", f"{type(ex).__name__}: {str(ex)[:120]} @ {where}"))
                        break
            finally:
                sys.settrace(None)
        finally:
            sched.finish(me)

    threads = [threading.Thread(target=work, args=(i,), daemon=True) for i in range(n)]
    # locks that the code under test creates while the schedule runs are
    # cooperative ones (see CoopLock); the harness's own primitives exist already
    real_lock, real_rlock = threading.Lock, threading.RLock
    import cotengra.reusable as _R
    import cotengra.presets as _P
    import cotengra.hyperoptimizers.hyper as _H

    class _Threading:
        """the ``threading`` module as seen from the scheduled files"""

        def __getattr__(self, name):
            if name == "Lock":
                return lambda: CoopLock(sched)
            if name == "RLock":
                return lambda: CoopLock(sched, reentrant=True)
            return getattr(threading, name)

    saved = []
    for mod_ in (_R, _P, _H):
        if getattr(mod_, "threading", None) is threading:
            saved.append(mod_)
            mod_.threading = _Threading()
    try:
        # the optimizer is built (and warmed up by a first sequential pass, so
        # that the threads meet a populated cache / a remembered last query)
        # with the cooperative locks already in place
        box["opt"] = build_optimizer(spec)
        for q, e in warm:
            ask(box["opt"], e, q)
        for t in threads:
            t.start()
        for t in threads:
            t.join(timeout=120)
            if t.is_alive():
                raise HarnessError("a scheduled thread did not finish within 120 s")
    finally:
        for mod_ in saved:
            mod_.threading = threading
    viol = []
    for i, rs in enumerate(results):
        if not rs:
            raise HarnessError("thread produced no result")
        for j, r in enumerate(rs):
            q, e, qi, tw = plans[i][j]
            what = (
                f"thread {i} query#{j} {spec['kind']}.{e}(pool {qi}{'abcde'[tw] if tw else ''}, N={len(q[0])}) "
                f"under preemptions {sorted(preempt)}"
            )
            if r[0] == "harness":
                raise HarnessError(r[1])
            if r[0] == "raised":
                viol.append(f"{what} raised {r[1]}")
            else:
                judge(r[1], q, what, viol)
    return viol, sched.step, sched.switches


def run_sched(spec, state=None, tier="quick"):
    import itertools

    warnings.filterwarnings("ignore")
    scheds = spec.get("schedules")
    viol, steps, _ = run_threads(spec, [])
    nrun = 1
    if viol:
        return Outcome(viol, False, ["mode=sched"], {"schedules": nrun, "fail_schedule": []})
    if scheds is None:
        scheds = [[s] for s in range(1, steps + 1)]
        if tier != "thorough" and steps > 80:
            # quick tier: a deterministic stride through the one-preemption
            # schedules (offset from the spec) instead of all of them
            stride = -(-steps // 80)
            off = (spec.get("deep") or [(0, 0)])[0][0] % stride
            scheds = scheds[off::stride]
        if tier == "thorough":
            pairs = [list(c) for c in itertools.combinations(range(1, steps + 1), 2)]
            if len(pairs) > 3000:
                # beyond ~78 yield points: a deterministic stride through the
                # two-preemption schedules instead of all of them
                stride = -(-len(pairs) // 3000)
                off = (spec.get("deep") or [(0, 0)])[0][1] % stride
                pairs = pairs[off::stride]
            scheds += pairs
        else:
            if steps:
                scheds += [sorted({a % steps + 1, b % steps + 1}) for a, b in spec.get("deep", [])]
    preempted = 0
    for sc in scheds:
        v, _, sw = run_threads(spec, sc)
        nrun += 1
        preempted += 1 if sw else 0
        if state is not None:
            from ..harness import spec_hash

            o = Outcome([], sw > 0, ["mode=sched", f"kind={spec['kind']}", f"preemptions={len(sc)}"])
            state.record({"case": spec_hash(spec), "schedule": sc}, o)
        if v:
            return Outcome(v, True, ["mode=sched"], {"schedules": nrun, "fail_schedule": sc, "yield_points": steps})
    return Outcome([], preempted > 0, ["mode=sched", f"kind={spec['kind']}"], {"schedules": nrun, "yield_points": steps, "max_yield_points": steps})


def run_pooled(spec):
    import sys
    import threading

    import cotengra as ctg

    warnings.filterwarnings("ignore")
    # the library's cached pools are module level state: start every case cold
    for h in (ctg.parallel.ThreadPoolHandler, ctg.parallel.ProcessPoolHandler):
        h.shutdown()
        h._n_workers = -1
    backend = spec["backend"]
    if backend == "concurrent.futures":
        # (a process pool; only the random-greedy optimizer ships picklable work
        # for it in every configuration used here)
        if not spec["kind"].startswith("ReusableRG"):
            backend = "threads"
    ok, opt = guarded(build_optimizer, dict(spec, parallel=backend))
    if not ok:
        return Outcome([f"building {spec['kind']}(parallel={backend!r}) raised {opt}"], False, ["error"])
    n = len(spec["pool"])
    viol = []
    old_si = sys.getswitchinterval()
    sys.setswitchinterval(1e-6)
    try:
        for rnd in range(spec["rounds"]):
            barrier = threading.Barrier(n)
            results = [None] * n

            def work(i):
                q = query(spec["pool"][i], 0)
                barrier.wait()
                results[i] = guarded(ask, opt, spec["entry"], q)

            ths = [threading.Thread(target=work, args=(i,)) for i in range(n)]
            for t in ths:
                t.start()
            for t in ths:
                t.join(600)
            if any(t.is_alive() for t in ths):
                from ..harness import HarnessError

                raise HarnessError("c16 pooled: a thread did not finish within 600 s")
            for i, r in enumerate(results):
                what = f"round {rnd}, thread {i} of {n}: {spec['kind']}(parallel={backend!r}).{spec['entry']}(pool {i})"
                if not r[0]:
                    viol.append(f"{what} raised {r[1]}")
                else:
                    judge(r[1], query(spec["pool"][i], 0), what, viol)
            if viol:
                break
    finally:
        sys.setswitchinterval(old_si)
        for h in (ctg.parallel.ThreadPoolHandler, ctg.parallel.ProcessPoolHandler):
            h.shutdown()
            h._n_workers = -1
    return Outcome(viol, n >= 2, ["mode=pooled", f"kind={spec['kind']}", f"backend={backend}", f"threads={n}"], {"pooled_queries": n * spec["rounds"]})


def run_case(spec, sub=None):
    if spec["mode"] == "seq":
        return run_seq(spec)
    if spec["mode"] == "pooled":
        return run_pooled(spec)
    return run_sched(spec)


def replay(spec):
    return run_case(spec)


def shard_main(tier, seed, shard, nshards, state):
    import hypothesis
    from hypothesis import HealthCheck, Phase, given, settings
    from hypothesis import seed as hseed

    from .. import harness

    nb = max(1, budget(tier)["examples"] // nshards)

    class Stop(Exception):
        pass

    # sequences shrink well with Hypothesis; schedule cases are enumerated
    @hseed(int(seed) * 1000 + shard)
    @settings(
        max_examples=nb, database=None, deadline=None, report_multiple_bugs=False,
        suppress_health_check=list(HealthCheck), phases=(Phase.generate, Phase.shrink),
        verbosity=hypothesis.Verbosity.quiet,
    )
    @given(strategy(tier))
    def test(spec):
        if state.fail is not None:
            state.post_fail_evals += 1
            if state.post_fail_evals > 150:
                if harness.spec_hash(spec) in state.failing_hashes:
                    raise Stop()
                return
        if spec["mode"] == "seq":
            out = run_seq(spec)
            state.record(spec, out)
        elif spec["mode"] == "pooled":
            out = run_pooled(spec)
            state.record(spec, out)
            state.stats["pooled_queries"] = state.stats.get("pooled_queries", 0) + out.stats.get("pooled_queries", 0)
        else:
            out = run_sched(spec, state=state if state.fail is None else None, tier=tier)
            for k in ("schedules", "max_yield_points"):
                if k in out.stats:
                    if k.startswith("max_"):
                        state.stats[k] = max(state.stats.get(k, 0), out.stats[k])
                    else:
                        state.stats[k] = state.stats.get(k, 0) + out.stats[k]
        if out.violations:
            s = dict(spec)
            if spec["mode"] == "sched" and "fail_schedule" in out.stats:
                s["schedules"] = [out.stats["fail_schedule"]]
            state.fail = (s, out.violations)
            state.failing_hashes.add(harness.spec_hash(spec))
            raise Stop()

    try:
        test()
    except Stop:
        pass
    except hypothesis.errors.Flaky:
        # thread schedules are only approximately replayable; keep the failure
        if state.fail is None:
            raise
