"""./check <ID> [--tier quick|thorough] [--replay file] [--shards N]

Exit codes: 0 property held on everything explored; 1 violation (prints
``VIOLATION property=<ID> replay=<path>``); 2 harness trouble (inconclusive).
"""

import argparse
import importlib
import json
import os
import shutil
import subprocess
import sys
import time

VERIF = os.path.dirname(os.path.dirname(os.path.abspath(__file__)))
# where evidence/ and replays/ are written; only sensitivity tooling overrides
# this (so that runs against a scratch copy never touch the committed evidence)
OUT = os.environ.get("VERIF_OUT") or VERIF
PY = os.environ.get("VERIF_PYTHON", "/venv/bin/python")


def child_env():
    env = dict(os.environ)
    repo = env.get("VERIF_REPO", "/repo")
    env["VERIF_REPO"] = repo
    env["PYTHONPATH"] = os.pathsep.join([repo, VERIF])
    env["PYTHONHASHSEED"] = "0"
    env["PYTHONDONTWRITEBYTECODE"] = "1"
    for k in ("OMP_NUM_THREADS", "OPENBLAS_NUM_THREADS", "MKL_NUM_THREADS"):
        env[k] = "1"
    return env


def main():
    ap = argparse.ArgumentParser()
    ap.add_argument("prop")
    ap.add_argument("--tier", default=None)
    ap.add_argument("--replay", default=None)
    ap.add_argument("--shards", type=int, default=None)
    args = ap.parse_args()

    prop = args.prop.upper()
    tier = args.tier or os.environ.get("VERIF_TIER") or "quick"
    if tier not in ("quick", "thorough"):
        print(f"unknown tier {tier}", file=sys.stderr)
        return 2
    try:
        seed = int(os.environ.get("VERIF_SEED", "1"))
    except ValueError:
        seed = 1

    if args.replay:
        # replay in a fresh child with the right environment
        p = subprocess.run(
            [PY, "-m", "vlib.replay", prop, args.replay],
            cwd=VERIF,
            env=child_env(),
        )
        return p.returncode

    sys.path.insert(0, VERIF)
    os.environ.setdefault("VERIF_REPO", "/repo")
    sys.path.insert(0, os.environ["VERIF_REPO"])
    mod = importlib.import_module(f"vlib.props.{prop.lower()}")
    budget = mod.budget(tier)
    nshards = args.shards or budget.get("shards", 16)
    nshards = max(1, min(nshards, os.cpu_count() or 1, 16))
    timeout = budget.get("timeout", 1500 if tier == "quick" else 6 * 3600)

    # replay files of earlier runs of this property are stale now
    import glob

    for old in glob.glob(os.path.join(OUT, "replays", f"{prop}-*.json")):
        os.remove(old)

    work = os.path.join(VERIF, ".work", f"{prop}-{tier}-{os.getpid()}")
    shutil.rmtree(work, ignore_errors=True)
    os.makedirs(work)
    t0 = time.time()
    procs = []
    try:
        for k in range(nshards):
            out = os.path.join(work, f"shard{k}.json")
            env = child_env()
            env["VERIF_SCRATCH"] = os.path.join(work, f"scratch{k}")
            os.makedirs(env["VERIF_SCRATCH"], exist_ok=True)
            log = open(os.path.join(work, f"shard{k}.log"), "w")
            p = subprocess.Popen(
                [PY, "-m", "vlib.shard", prop, tier, str(seed), str(k), str(nshards), out],
                cwd=VERIF,
                env=env,
                stdout=log,
                stderr=subprocess.STDOUT,
            )
            procs.append((k, p, out, log))

        harness_trouble = []
        results = []
        for k, p, out, log in procs:
            remaining = max(1, timeout - (time.time() - t0))
            try:
                rc = p.wait(timeout=remaining)
            except subprocess.TimeoutExpired:
                p.kill()
                p.wait()
                harness_trouble.append(f"shard {k}: wall-clock watchdog ({timeout}s)")
                continue
            finally:
                log.close()
            if rc != 0 or not os.path.exists(out):
                with open(os.path.join(work, f"shard{k}.log")) as f:
                    tail = f.read()[-3000:]
                harness_trouble.append(f"shard {k}: exit {rc}\n{tail}")
                continue
            with open(out) as f:
                results.append(json.load(f))
    finally:
        for k, p, out, log in procs:
            if p.poll() is None:
                p.kill()

    wall = time.time() - t0
    if harness_trouble:
        for h in harness_trouble[:2]:
            print("HARNESS-ERROR", h, file=sys.stderr)
        if len(harness_trouble) > 2:
            print(f"HARNESS-ERROR ... and {len(harness_trouble) - 2} more shards", file=sys.stderr)
        shutil.rmtree(work, ignore_errors=True)
        return 2

    # aggregate
    evaluations = sum(r["evaluations"] for r in results)
    nontrivial = set()
    classes = {}
    stats = {}
    samples = []
    known_hits = {}
    fails = []
    for r in results:
        nontrivial.update(r["nontrivial"])
        for c, v in r["classes"].items():
            classes[c] = classes.get(c, 0) + v
        for c, v in r["stats"].items():
            if c.startswith("max_"):
                stats[c] = max(stats.get(c, 0), v)
            else:
                stats[c] = stats.get(c, 0) + v
        for c, v in r["known_hits"].items():
            known_hits[c] = known_hits.get(c, 0) + v
        if len(samples) < 6:
            samples.extend(r["samples"][:2])
        if r["fail"] is not None:
            fails.append(r["fail"])

    from vlib import harness

    known = harness.load_known_findings(prop)
    for sig, desc in known:
        print(f"KNOWN-FINDING: {desc} (excluded cases this run: {known_hits.get(sig, 0)})")

    coverage = {
        "evaluations": evaluations,
        "distinct_nontrivial": len(nontrivial),
        "rule": mod.RULE,
        "samples": samples[:6],
        "class_distribution": dict(sorted(classes.items())),
        "counters": dict(sorted(stats.items())),
        "shards": nshards,
        "known_finding_exclusions": known_hits,
    }
    if hasattr(mod, "coverage_extra"):
        coverage.update(mod.coverage_extra(tier, stats))
    evidence = {
        "property_id": prop,
        "tier": tier,
        "seed": seed,
        "level": mod.LEVEL,
        "coverage": coverage,
        "assumptions": list(getattr(mod, "ASSUMPTIONS", [])),
        "wall_s": round(wall, 2),
        "violations": len(fails),
    }
    os.makedirs(os.path.join(OUT, "evidence"), exist_ok=True)
    harness.write_json(os.path.join(OUT, "evidence", f"{prop}.json"), evidence)

    shutil.rmtree(work, ignore_errors=True)
    try:
        os.rmdir(os.path.join(VERIF, ".work"))
    except OSError:
        pass

    print(
        f"{prop} tier={tier} seed={seed}: {evaluations} cases, "
        f"{len(nontrivial)} distinct non-trivial, {len(fails)} failing shard(s), {wall:.1f}s"
    )
    if fails:
        os.makedirs(os.path.join(OUT, "replays"), exist_ok=True)
        # smallest failing spec first
        fails.sort(key=lambda f: len(json.dumps(f["spec"], default=str)))
        paths = []
        for f in fails[:3]:
            h = harness.spec_hash(f["spec"])
            path = os.path.join("replays", f"{prop}-{h}.json")
            harness.write_json(
                os.path.join(OUT, path),
                {"property": prop, "spec": f["spec"], "violations": f["violations"]},
            )
            paths.append(path)
        for v in fails[0]["violations"][:5]:
            print("  ", v)
        print(f"VIOLATION property={prop} replay={paths[0]}")
        return 1
    return 0


if __name__ == "__main__":
    sys.exit(main())
