"""./check <ID> [--tier quick|thorough] [--replay file] [--shards N]

Exit codes: 0 property held on everything explored; 1 violation (prints
``VIOLATION property=<ID> replay=<path>``); 2 harness trouble (inconclusive).
"""

import argparse
import importlib
import json
import os
import shutil
import subprocess
import sys
import time

VERIF = os.path.dirname(os.path.dirname(os.path.abspath(__file__)))
# where evidence/ and replays/ are written; only sensitivity tooling overrides
# this (so that runs against a scratch copy never touch the committed evidence)
OUT = os.environ.get("VERIF_OUT") or VERIF
PY = os.environ.get("VERIF_PYTHON", "/venv/bin/python")


def child_env():
    env = dict(os.environ)
    repo = env.get("VERIF_REPO", "/repo")
    env["VERIF_REPO"] = repo
    env["PYTHONPATH"] = os.pathsep.join([repo, VERIF])
    env["PYTHONHASHSEED"] = "0"
    env["PYTHONDONTWRITEBYTECODE"] = "1"
    for k in ("OMP_NUM_THREADS", "OPENBLAS_NUM_THREADS", "MKL_NUM_THREADS"):
        env[k] = "1"
    return env


def run_regression(prop, work, timeout):
    """Replay regress/<ID>/*.json in up to 16 children. Returns the list of
    per-file results, or None on harness trouble."""
    import glob

    files = sorted(glob.glob(os.path.join(VERIF, "regress", prop, "*.json")))
    if os.environ.get("VERIF_NO_REGRESS"):
        # sensitivity tooling only: judge the generated search on its own
        files = []
    if not files:
        return []
    n = max(1, min(16, os.cpu_count() or 1, len(files)))
    procs = []
    for k in range(n):
        out = os.path.join(work, f"regress{k}.json")
        env = child_env()
        env["VERIF_SCRATCH"] = os.path.join(work, f"rscratch{k}")
        os.makedirs(env["VERIF_SCRATCH"], exist_ok=True)
        log = open(os.path.join(work, f"regress{k}.log"), "w")
        p = subprocess.Popen(
            [PY, "-m", "vlib.regress", prop, out] + files[k::n], cwd=VERIF, env=env, stdout=log, stderr=subprocess.STDOUT,
        )
        procs.append((k, p, out, log))
    res = []
    trouble = []
    t0 = time.time()
    for k, p, out, log in procs:
        try:
            rc = p.wait(timeout=max(1, timeout - (time.time() - t0)))
        except subprocess.TimeoutExpired:
            p.kill()
            p.wait()
            trouble.append(f"regression replay {k}: wall-clock watchdog")
            continue
        finally:
            log.close()
        if rc != 0 or not os.path.exists(out):
            with open(os.path.join(work, f"regress{k}.log")) as f:
                trouble.append(f"regression replay {k}: exit {rc}\n{f.read()[-3000:]}")
            continue
        with open(out) as f:
            res.extend(json.load(f))
    if trouble:
        for h in trouble[:2]:
            print("HARNESS-ERROR", h, file=sys.stderr)
        return None
    return res


def main():
    ap = argparse.ArgumentParser()
    ap.add_argument("prop")
    ap.add_argument("--tier", default=None)
    ap.add_argument("--replay", default=None)
    ap.add_argument("--shards", type=int, default=None)
    args = ap.parse_args()

    prop = args.prop.upper()
    tier = args.tier or os.environ.get("VERIF_TIER") or "quick"
    if tier not in ("quick", "thorough"):
        print(f"unknown tier {tier}", file=sys.stderr)
        return 2
    try:
        seed = int(os.environ.get("VERIF_SEED", "1"))
    except ValueError:
        seed = 1

    if args.replay:
        # replay in a fresh child with the right environment
        p = subprocess.run(
            [PY, "-m", "vlib.replay", prop, args.replay],
            cwd=VERIF,
            env=child_env(),
        )
        return p.returncode

    sys.path.insert(0, VERIF)
    os.environ.setdefault("VERIF_REPO", "/repo")
    sys.path.insert(0, os.environ["VERIF_REPO"])
    mod = importlib.import_module(f"vlib.props.{prop.lower()}")
    budget = mod.budget(tier)
    nshards = args.shards or budget.get("shards", 16)
    nshards = max(1, min(nshards, os.cpu_count() or 1, 16))
    timeout = budget.get("timeout", 1500 if tier == "quick" else 6 * 3600)

    # replay files of earlier runs of this property are stale now
    import glob

    for old in glob.glob(os.path.join(OUT, "replays", f"{prop}-*.json")):
        os.remove(old)

    work = os.path.join(VERIF, ".work", f"{prop}-{tier}-{os.getpid()}")
    shutil.rmtree(work, ignore_errors=True)
    os.makedirs(work)
    t0 = time.time()

    # stage 0: the saved failing inputs of this property (regress/<ID>/*.json),
    # replayed without Hypothesis: seconds, independent of VERIF_SEED
    reg = run_regression(prop, work, min(timeout, 1500))
    if reg is None:
        shutil.rmtree(work, ignore_errors=True)
        return 2
    bad = [r for r in reg if r["violations"]]
    if bad:
        from vlib import harness

        bad.sort(key=lambda r: os.path.getsize(os.path.join(VERIF, r["file"])))
        with open(os.path.join(VERIF, bad[0]["file"])) as f:
            spec = json.load(f)["spec"]
        path = os.path.join("replays", f"{prop}-{harness.spec_hash(spec)}.json")
        os.makedirs(os.path.join(OUT, "replays"), exist_ok=True)
        harness.write_json(
            os.path.join(OUT, path),
            {"property": prop, "spec": spec, "violations": bad[0]["violations"], "from": bad[0]["file"], "origin": bad[0]["origin"]},
        )
        evidence = {
            "property_id": prop, "tier": tier, "seed": seed, "level": mod.LEVEL,
            "coverage": {
                "evaluations": len(reg), "distinct_nontrivial": sum(r["nontrivial"] for r in reg), "rule": mod.RULE,
                "samples": [], "class_distribution": {}, "counters": {}, "shards": 0, "known_finding_exclusions": {},
                "regression_corpus": {"files": len(reg), "failing": [r["file"] for r in bad]},
            },
            "assumptions": list(getattr(mod, "ASSUMPTIONS", [])), "wall_s": round(time.time() - t0, 2), "violations": len(bad),
        }
        os.makedirs(os.path.join(OUT, "evidence"), exist_ok=True)
        harness.write_json(os.path.join(OUT, "evidence", f"{prop}.json"), evidence)
        shutil.rmtree(work, ignore_errors=True)
        print(f"{prop} tier={tier} seed={seed}: saved input {bad[0]['file']} ({bad[0]['origin']}) fails; {len(bad)} of {len(reg)} saved inputs fail")
        for v in bad[0]["violations"][:5]:
            print("  ", v)
        print(f"VIOLATION property={prop} replay={path}")
        return 1

    procs = []
    try:
        for k in range(nshards):
            out = os.path.join(work, f"shard{k}.json")
            env = child_env()
            env["VERIF_SCRATCH"] = os.path.join(work, f"scratch{k}")
            os.makedirs(env["VERIF_SCRATCH"], exist_ok=True)
            log = open(os.path.join(work, f"shard{k}.log"), "w")
            p = subprocess.Popen(
                [PY, "-m", "vlib.shard", prop, tier, str(seed), str(k), str(nshards), out],
                cwd=VERIF,
                env=env,
                stdout=log,
                stderr=subprocess.STDOUT,
            )
            procs.append((k, p, out, log))

        harness_trouble = []
        results = []
        for k, p, out, log in procs:
            remaining = max(1, timeout - (time.time() - t0))
            try:
                rc = p.wait(timeout=remaining)
            except subprocess.TimeoutExpired:
                p.kill()
                p.wait()
                harness_trouble.append(f"shard {k}: wall-clock watchdog ({timeout}s)")
                continue
            finally:
                log.close()
            if rc != 0 or not os.path.exists(out):
                with open(os.path.join(work, f"shard{k}.log")) as f:
                    tail = f.read()[-3000:]
                harness_trouble.append(f"shard {k}: exit {rc}\n{tail}")
                continue
            with open(out) as f:
                results.append(json.load(f))
    finally:
        for k, p, out, log in procs:
            if p.poll() is None:
                p.kill()

    wall = time.time() - t0
    if harness_trouble:
        for h in harness_trouble[:2]:
            print("HARNESS-ERROR", h, file=sys.stderr)
        if len(harness_trouble) > 2:
            print(f"HARNESS-ERROR ... and {len(harness_trouble) - 2} more shards", file=sys.stderr)
        shutil.rmtree(work, ignore_errors=True)
        return 2

    # aggregate
    evaluations = sum(r["evaluations"] for r in results)
    nontrivial = set()
    classes = {}
    stats = {}
    samples = []
    known_hits = {}
    fails = []
    for r in results:
        nontrivial.update(r["nontrivial"])
        for c, v in r["classes"].items():
            classes[c] = classes.get(c, 0) + v
        for c, v in r["stats"].items():
            if c.startswith("max_"):
                stats[c] = max(stats.get(c, 0), v)
            else:
                stats[c] = stats.get(c, 0) + v
        for c, v in r["known_hits"].items():
            known_hits[c] = known_hits.get(c, 0) + v
        if len(samples) < 6:
            samples.extend(r["samples"][:2])
        if r["fail"] is not None:
            fails.append(r["fail"])

    from vlib import harness

    known = harness.load_known_findings(prop)
    for sig, desc in known:
        print(f"KNOWN-FINDING: {desc} (excluded cases this run: {known_hits.get(sig, 0)})")

    coverage = {
        "evaluations": evaluations,
        "distinct_nontrivial": len(nontrivial),
        "rule": mod.RULE,
        "samples": samples[:6],
        "class_distribution": dict(sorted(classes.items())),
        "counters": dict(sorted(stats.items())),
        "shards": nshards,
        "known_finding_exclusions": known_hits,
    }
    coverage["regression_corpus"] = {
        "files": len(reg),
        "all_pass": True,
        "what": "shrunk failing inputs saved from trees with a defect (before each fix: commit of /repo; or a seeded change), replayed first",
    }
    if hasattr(mod, "coverage_extra"):
        coverage.update(mod.coverage_extra(tier, stats))
    evidence = {
        "property_id": prop,
        "tier": tier,
        "seed": seed,
        "level": mod.LEVEL,
        "coverage": coverage,
        "assumptions": list(getattr(mod, "ASSUMPTIONS", [])),
        "wall_s": round(wall, 2),
        "violations": len(fails),
    }
    os.makedirs(os.path.join(OUT, "evidence"), exist_ok=True)
    harness.write_json(os.path.join(OUT, "evidence", f"{prop}.json"), evidence)

    shutil.rmtree(work, ignore_errors=True)
    try:
        os.rmdir(os.path.join(VERIF, ".work"))
    except OSError:
        pass

    print(
        f"{prop} tier={tier} seed={seed}: {evaluations} cases, "
        f"{len(nontrivial)} distinct non-trivial, {len(fails)} failing shard(s), {wall:.1f}s"
    )
    if fails:
        os.makedirs(os.path.join(OUT, "replays"), exist_ok=True)
        # smallest failing spec first
        fails.sort(key=lambda f: len(json.dumps(f["spec"], default=str)))
        paths = []
        for f in fails[:3]:
            h = harness.spec_hash(f["spec"])
            path = os.path.join("replays", f"{prop}-{h}.json")
            harness.write_json(
                os.path.join(OUT, path),
                {"property": prop, "spec": f["spec"], "violations": f["violations"]},
            )
            paths.append(path)
        for v in fails[0]["violations"][:5]:
            print("  ", v)
        print(f"VIOLATION property={prop} replay={paths[0]}")
        return 1
    return 0


if __name__ == "__main__":
    sys.exit(main())
