"""Deterministic non-termination detector (DESIGN.md 0.7).

Counts Python function entries and backward jumps executed inside files of the
cotengra package, using ``sys.monitoring``.  When the count exceeds the fuel
limit a ``FuelExhausted`` (a BaseException) is raised inside the running code.
The count is a pure function of the code and the input, so an exhausted case
replays identically - unlike a wall-clock timeout.
"""

import sys


class FuelExhausted(BaseException):
    pass


class Fuel:
    def __init__(self, limit, needle="/cotengra/"):
        self.limit = limit
        self.needle = needle
        self.used = 0
        self._on = False

    def __enter__(self):
        mon = sys.monitoring
        self.tool = mon.PROFILER_ID
        mon.use_tool_id(self.tool, "verif-fuel")
        ev = mon.events

        def cb_start(code, off):
            if self.needle not in code.co_filename:
                return mon.DISABLE
            self.used += 1
            if self.used > self.limit:
                raise FuelExhausted(f"more than {self.limit} steps")

        def cb_jump(code, src, dst):
            if self.needle not in code.co_filename:
                return mon.DISABLE
            if dst < src:
                self.used += 1
                if self.used > self.limit:
                    raise FuelExhausted(f"more than {self.limit} steps")

        mon.register_callback(self.tool, ev.PY_START, cb_start)
        mon.register_callback(self.tool, ev.JUMP, cb_jump)
        mon.set_events(self.tool, ev.PY_START | ev.JUMP)
        self._on = True
        return self

    def __exit__(self, *exc):
        mon = sys.monitoring
        if self._on:
            mon.set_events(self.tool, 0)
            mon.register_callback(self.tool, mon.events.PY_START, None)
            mon.register_callback(self.tool, mon.events.JUMP, None)
            mon.free_tool_id(self.tool)
            # re-arm locations disabled during this window
            mon.restart_events()
            self._on = False
        return False
