"""Independent reference evaluators.

Nothing in this file imports cotengra.  ``dense_ref`` is the value oracle,
``CostRef`` the cost oracle (DESIGN.md 0.4 / 0.5).
"""

import itertools
import math

import numpy as np


# ----------------------------------------------------------------------------
# arrays: small-integer valued, fully determined by (aseed, position, shape)
# ----------------------------------------------------------------------------


def make_arrays(inputs, sizes, aseed, dtype="f", lo=-2, hi=2, nonzero=False):
    """Integer valued float64 / complex128 arrays derived from the spec."""
    arrays = []
    for i, term in enumerate(inputs):
        shape = tuple(sizes[ix] for ix in term)
        rng = np.random.default_rng([int(aseed) & 0xFFFFFFFF, i, len(term)])
        x = rng.integers(lo, hi + 1, size=shape).astype(np.float64)
        if nonzero:
            x[x == 0] = 1.0
        if dtype == "c":
            y = rng.integers(lo, hi + 1, size=shape).astype(np.float64)
            x = x + 1j * y
        arrays.append(x)
    return arrays


# ----------------------------------------------------------------------------
# dense reference einsum
# ----------------------------------------------------------------------------


def _take_diagonals(x, term):
    """Return (array, labels) with every repeated label of ``term`` reduced
    to a single axis (its diagonal), via integer array indexing."""
    term = list(term)
    labels = list(dict.fromkeys(term))
    if len(labels) == len(term):
        return x, labels
    dims = {}
    for ix, d in zip(term, x.shape):
        if dims.setdefault(ix, d) != d:
            raise ValueError(f"inconsistent size for {ix!r}")
    # build broadcasting index grids, one per unique label
    grids = {}
    for k, ix in enumerate(labels):
        shp = [1] * len(labels)
        shp[k] = dims[ix]
        grids[ix] = np.arange(dims[ix]).reshape(shp)
    sel = tuple(grids[ix] for ix in term)
    return x[sel], labels


def dense_ref(inputs, output, sizes, arrays, fixed=None):
    """Evaluate the einsum ``inputs -> output`` by brute force.

    Every operand is reduced to unique labels (diagonals), broadcast into the
    space of *all* labels (output first), multiplied, and the non-output axes
    are summed.  ``fixed`` maps label -> value: that label is pinned on every
    operand and removed from the output.
    """
    fixed = fixed or {}
    out = [ix for ix in output if ix not in fixed]
    if len(set(out)) != len(out):
        raise ValueError("repeated output label")
    ops = []
    for term, x in zip(inputs, arrays):
        x = np.asarray(x)
        if x.ndim != len(term):
            raise ValueError("rank mismatch")
        x, labels = _take_diagonals(x, term)
        if any(ix in fixed for ix in labels):
            sel = tuple(
                fixed[ix] if ix in fixed else slice(None) for ix in labels
            )
            x = x[sel]
            labels = [ix for ix in labels if ix not in fixed]
        ops.append((x, labels))

    order = list(out)
    for _, labels in ops:
        for ix in labels:
            if ix not in order:
                order.append(ix)
    pos = {ix: k for k, ix in enumerate(order)}
    nd = len(order)

    acc = None
    for x, labels in ops:
        # transpose to global order then insert singleton axes
        perm = sorted(range(len(labels)), key=lambda k: pos[labels[k]])
        x = np.transpose(x, perm) if labels else x
        shp = [1] * nd
        for k in perm:
            shp[pos[labels[k]]] = x.shape[perm.index(k)]
        x = x.reshape(shp)
        acc = x if acc is None else acc * x
    if acc is None:
        raise ValueError("no operands")
    # labels in output that are on no operand are a caller error
    full = [sizes[ix] for ix in order]
    acc = np.broadcast_to(acc, full)
    nout = len(out)
    if nd > nout:
        acc = acc.sum(axis=tuple(range(nout, nd)))
    return np.array(acc)


def volume(inputs, output, sizes):
    labels = set(output)
    for t in inputs:
        labels.update(t)
    return math.prod(sizes[ix] for ix in labels)


# ----------------------------------------------------------------------------
# paths and trees (pure python, my own)
# ----------------------------------------------------------------------------


def linear_to_ssa_ref(path, n):
    """Linear (recycled positions) path -> SSA path.  Steps may have any
    number >= 1 of positions."""
    live = list(range(n))
    nxt = n
    ssa = []
    for step in path:
        ids = [live[i] for i in step]
        for i in sorted(step, reverse=True):
            live.pop(i)
        ssa.append(tuple(ids))
        live.append(nxt)
        nxt += 1
    return ssa


def ssa_nodes(ssa_path, n):
    """List of (parent, left, right) frozensets for a binary SSA path."""
    nodes = {i: frozenset([i]) for i in range(n)}
    nxt = n
    out = []
    for i, j in ssa_path:
        l, r = nodes[i], nodes[j]
        p = l | r
        nodes[nxt] = p
        out.append((p, l, r))
        nxt += 1
    return out


def all_binary_trees(n):
    """Yield every binary tree over leaves 0..n-1 as an SSA path.  There are
    (2n-3)!! of them.  A tree is generated once: as a set of internal nodes,
    emitted in a canonical order (children before parents)."""

    def parts(items):
        # all unordered bipartitions of a tuple ``items`` (first elem fixed
        # on the left side) into two non-empty halves
        first, rest = items[0], items[1:]
        m = len(rest)
        for mask in range(2**m):
            left = [first] + [rest[k] for k in range(m) if mask >> k & 1]
            right = [rest[k] for k in range(m) if not mask >> k & 1]
            if right:
                yield tuple(left), tuple(right)

    def trees(items):
        if len(items) == 1:
            yield items[0]
            return
        for l, r in parts(items):
            for tl in trees(l):
                for tr in trees(r):
                    yield (tl, tr)

    def to_ssa(t):
        ssa = []
        counter = [n]

        def rec(t):
            if isinstance(t, int):
                return t
            a = rec(t[0])
            b = rec(t[1])
            ssa.append((a, b))
            k = counter[0]
            counter[0] += 1
            return k

        rec(t)
        return ssa

    for t in trees(tuple(range(n))):
        yield to_ssa(t)


def check_path_valid(path, n):
    """Validity predicate for a linear path over n tensors: every step
    references distinct existing positions, and exactly one tensor is left.
    Returns None if valid, else a message."""
    live = n
    if n == 1:
        # nothing to contract; accept the empty path and a single (0,) step
        for step in path:
            step = tuple(step)
            if any((not isinstance(i, (int, np.integer))) for i in step):
                return f"non integer position in {step}"
            if len(set(step)) != len(step) or any(
                i < 0 or i >= live for i in step
            ):
                return f"step {step} invalid with {live} live tensors"
            live -= len(step) - 1
        return None if live == 1 else f"{live} tensors left"
    for k, step in enumerate(path):
        step = tuple(step)
        if len(step) < 1:
            return f"step {k} is empty"
        if any((not isinstance(i, (int, np.integer))) for i in step):
            return f"non integer position in step {k}: {step}"
        if len(set(step)) != len(step):
            return f"step {k} repeats a position: {step}"
        if any(i < 0 or i >= live for i in step):
            return f"step {k}={step} out of range with {live} live tensors"
        live -= len(step) - 1
    if live != 1:
        return f"path leaves {live} tensors"
    return None


# ----------------------------------------------------------------------------
# cost reference
# ----------------------------------------------------------------------------


class CostRef:
    """Definition-level cost model of a contraction tree.

    ``removed`` is an ordered list of (label, project_or_None).
    """

    def __init__(self, inputs, output, sizes, removed=()):
        self.inputs = [tuple(t) for t in inputs]
        self.output = tuple(output)
        self.sizes = dict(sizes)
        self.removed = [(ix, p) for ix, p in removed]
        self.gone = {ix for ix, _ in self.removed}
        self.n = len(self.inputs)
        self.total = {}
        for t in self.inputs:
            for ix in t:
                self.total[ix] = self.total.get(ix, 0) + 1
        for ix in self.output:
            self.total[ix] = self.total.get(ix, 0) + 1
        self.nslices = math.prod(
            self.sizes[ix] for ix, p in self.removed if p is None
        )

    def count_in(self, S):
        c = {}
        for i in S:
            for ix in self.inputs[i]:
                if ix not in self.gone:
                    c[ix] = c.get(ix, 0) + 1
        return c

    def legs(self, S):
        """dict label -> count, of labels that survive on node S."""
        if len(S) == self.n:
            return {ix: 0 for ix in self.output if ix not in self.gone}
        return {
            ix: k for ix, k in self.count_in(S).items() if k < self.total[ix]
        }

    def size(self, S):
        return math.prod(self.sizes[ix] for ix in self.legs(S))

    def involved(self, L, R):
        inv = dict(self.legs(L))
        for ix, k in self.legs(R).items():
            inv[ix] = inv.get(ix, 0) + k
        return inv

    def flops(self, L, R):
        return math.prod(self.sizes[ix] for ix in self.involved(L, R))

    def leaf_simplifiable(self, i):
        """Does leaf i need a single-tensor preprocessing step (repeated label
        or a label summed on that tensor alone), after removal of sliced
        labels."""
        term = [ix for ix in self.inputs[i] if ix not in self.gone]
        if len(set(term)) != len(term):
            return True
        cnt = {}
        for ix in term:
            cnt[ix] = cnt.get(ix, 0) + 1
        return any(cnt[ix] == self.total[ix] for ix in cnt)

    def stats(self, steps):
        """steps = iterable of (P, L, R) node triples (any valid order)."""
        flops = write = 0
        msize = None
        per = []
        for P, L, R in steps:
            f = self.flops(L, R)
            s = self.size(P)
            per.append((P, f, s))
            flops += f
            write += s
            msize = s if msize is None else max(msize, s)
        if msize is None:
            msize = self.size(frozenset(range(self.n)))
        return {
            "flops": flops * self.nslices,
            "write": write * self.nslices,
            "size": msize,
            "per": per,
            "flops1": flops,
            "write1": write,
        }

    def peak(self, steps):
        tot = sum(self.size(frozenset([i])) for i in range(self.n))
        peak = tot
        for P, L, R in steps:
            tot += self.size(P)
            peak = max(peak, tot)
            tot -= self.size(L)
            tot -= self.size(R)
        return peak

    def combo(self, steps, factor, how="sum"):
        t = 0
        for P, L, R in steps:
            f = self.flops(L, R)
            w = self.size(P)
            t += (f + factor * w) if how == "sum" else max(f, factor * w)
        return t * self.nslices

    def slice_keys(self):
        """All combinations of values of the removed labels (projected ones
        pinned), as dicts, in no particular order."""
        ranges = []
        for ix, p in self.removed:
            ranges.append(range(self.sizes[ix]) if p is None else [p])
        labels = [ix for ix, _ in self.removed]
        for vals in itertools.product(*ranges):
            yield dict(zip(labels, vals))
