"""python -m vlib.replay <ID> <file>: re-run one saved case, bypassing Hypothesis."""

import importlib
import json
import os
import sys
import warnings


def main(argv):
    prop, path = argv
    warnings.filterwarnings("ignore")
    try:  # the same address space ceiling as a shard (see vlib/shard.py)
        import resource

        lim = int(os.environ.get("VERIF_SHARD_AS_GB", "12")) << 30
        resource.setrlimit(resource.RLIMIT_AS, (lim, lim))
    except Exception:  # noqa
        pass
    from . import harness

    harness.assert_repo_import()
    mod = importlib.import_module(f"vlib.props.{prop.lower()}")
    with open(path) as f:
        data = json.load(f)
    spec = data["spec"]
    if hasattr(mod, "replay"):
        out = mod.replay(spec)
    else:
        out = mod.run_case(spec)
    # open known findings are reported as such, exactly as in a search run
    sigs = getattr(mod, "KNOWN", {})
    for sig, desc in harness.load_known_findings(mod.ID):
        pred = sigs.get(sig)
        hit = [v for v in out.violations if pred and pred(spec, v)]
        if hit:
            print(f"KNOWN-FINDING: {desc}")
            out.violations = [v for v in out.violations if v not in hit]
    if out.violations:
        for v in out.violations[:10]:
            print("  ", v)
        print(f"VIOLATION property={prop} replay={path}")
        return 1
    print(f"{prop}: replay {path} passes")
    return 0


if __name__ == "__main__":
    try:
        code = main(sys.argv[1:])
    except Exception:
        import traceback

        traceback.print_exc()
        code = 2
    sys.stdout.flush()
    os._exit(code)
