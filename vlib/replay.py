"""python -m vlib.replay <ID> <file>: re-run one saved case, bypassing Hypothesis."""

import importlib
import json
import os
import sys
import warnings


def main(argv):
    prop, path = argv
    warnings.filterwarnings("ignore")
    from . import harness

    harness.assert_repo_import()
    mod = importlib.import_module(f"vlib.props.{prop.lower()}")
    with open(path) as f:
        data = json.load(f)
    spec = data["spec"]
    if hasattr(mod, "replay"):
        out = mod.replay(spec)
    else:
        out = mod.run_case(spec)
    if out.violations:
        for v in out.violations[:10]:
            print("  ", v)
        print(f"VIOLATION property={prop} replay={path}")
        return 1
    print(f"{prop}: replay {path} passes")
    return 0


if __name__ == "__main__":
    try:
        code = main(sys.argv[1:])
    except Exception:
        import traceback

        traceback.print_exc()
        code = 2
    sys.stdout.flush()
    os._exit(code)
