#!/bin/sh
# Offline setup: make sure hypothesis is importable by /venv's python.
set -e
if ! /venv/bin/python -c "import hypothesis" 2>/dev/null; then
  /venv/bin/pip install --no-index --find-links /opt/veriftools/wheels hypothesis
fi
/venv/bin/python -c "import hypothesis, numpy; print('hypothesis', hypothesis.__version__, 'numpy', numpy.__version__)"
cd "$(dirname "$0")"
PYTHONPATH=/repo /venv/bin/python -c "import cotengra; print('cotengra from', cotengra.__file__)"
